"""C05 — a task sees exactly the data published by the tasks that causally precede it."""
GEN = []
MANIFEST = {
    'technique': 'Lean 4 theorems over a model of context versioning and data flow + differential check against the '
                 'real data_flow functions in all row orders + causal-publisher monitor',
    'text': 'Model Mistral.Ctx = get_in_context_with_versions, evaluate_task_outbound_context, merge_context_by_version '
            '(_merge_ctx/_merge_versions), evaluate_upstream_context, ContextView lookup. Theorems: outbound_lookup, '
            'merge_value_rule, stale_copy_never_wins, newer_value_wins, merge_order_independent_partial, '
            'later_publish_wins_partial (a task own publish wins over the context it inherited in either merge order), '
            'later_publish_wins_full_fails (witness of known finding G: republishing with another shape), '
            'merged_version_is_max, lookup_priority, lookup_missing. Tie: stream ctx = the REAL functions on generated '
            'publish histories over fork/join DAGs, every inbound context in ALL row orders (joins <=4 parents) vs the '
            'model. Monitors (statement): a join sees the value of the causally latest publisher; order independence '
            'when no concurrent publishers; stored inbound contexts never modified by evaluation. "Evaluation never '
            'modifies stored contexts" is vacuous in Lean (immutable values): monitor only. Stream flow (engine '
            'level): generated programs on the REAL engine under random schedules; the stored inbound context of '
            'every completed task execution is recomputed by the Lean model from the real rows of the executions '
            'that triggered it (outbound of each, merged by version) and compared; monitors on the real rows: the '
            'visible value is the causally latest publisher\'s, else the workflow input; stored contexts of '
            'completed tasks never change afterwards.',
    'note': 'md5 version-key hashing modelled as identity; YAQL/Jinja evaluation not modelled; flat (non-dict) values '
            'in the proved partial theorems; dict-valued variables covered by correspondence + monitor.',
}
RULE = ('stream ctx: generated publish histories over fork/join DAGs (scalar, list and nested dict values), every '
        'inbound context computed by the real data_flow functions in ALL row orders (joins with <=4 parents) and '
        'compared with Mistral.Ctx; non-trivial = a join (>=2 parents) or a non-empty publish; distinct = distinct '
        'function inputs. Stream flow: generated single-activation programs on the real engine; one evaluation per '
        'completed task execution with >=1 triggering execution; non-trivial = a join or a publishing task')
TRUSTED = ['python dict order irrelevant (canonicalised by sorting keys)']
LEAN_MODULES = ['Mistral.Props.C05']


def correspond(ctx):
    from vlib import par
    par.run_parallel(ctx, 'harness.ctx_stream', 'run_chunk', [{'n_histories': ctx.n(150, 4000)}] * 14)
    par.run_parallel(ctx, 'harness.flow_stream', 'run_chunk', [{'n_programs': ctx.n(25, 600)}] * 14)


def search(ctx):
    # the monitors of both streams are the oracle; a wider sample of histories
    from vlib import par
    par.run_parallel(ctx, 'harness.ctx_stream', 'run_chunk', [{'n_histories': 1500}] * 14)
    if ctx.violations:
        return
    # engine level: the causal-publisher monitor on the real rows of generated programs under random schedules
    par.run_parallel(ctx, 'harness.flow_stream', 'run_chunk', [{'n_programs': 120}] * 14)


def replay(ctx, rep):
    rep = rep.get('replay', rep)
    if rep.get('stream') == 'flow':
        from harness import flow_stream
        flow_stream.replay(ctx, rep)
    elif 'history' in rep:
        from harness import ctx_stream
        ctx_stream.replay(ctx, rep)
