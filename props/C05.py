"""C05 — a task sees exactly the data published by the tasks that causally precede it."""
GEN = []
MANIFEST = {'technique': 'WORK IN PROGRESS', 'text': 'WORK IN PROGRESS', 'note': ''}
RULE = ('stream ctx: generated publish histories over fork/join DAGs (scalar, list and nested dict values), every '
        'inbound context computed by the real data_flow functions in ALL row orders (joins with <=4 parents) and '
        'compared with Mistral.Ctx; non-trivial = a join (>=2 parents) or a non-empty publish; distinct = distinct '
        'function inputs')
TRUSTED = []


def correspond(ctx):
    from vlib import par
    par.run_parallel(ctx, 'harness.ctx_stream', 'run_chunk', [{'n_histories': ctx.n(150, 4000)}] * 14)


def search(ctx):
    pass


def replay(ctx, rep):
    pass
