"""C05 — a task sees exactly the data published by the tasks that causally precede it."""
GEN = []
MANIFEST = {
    'technique': 'Lean 4 theorems over a model of context versioning and data flow (single merges AND whole fork/join '
                 'publish histories, arbitrarily nested values) + differential check against the real data_flow '
                 'functions in all row orders and over whole histories + leaf-granular causal-publisher monitor',
    'text': 'Model Mistral.Ctx = get_in_context_with_versions, evaluate_task_outbound_context, merge_context_by_version '
            '(_merge_ctx/_merge_versions), evaluate_upstream_context, ContextView lookup; Mistral.Hist = a whole run of '
            'a fork/join DAG (inbound = fold of the version merge over the parents\' outbound contexts in the listed '
            'row order, outbound = inbound + publish with version bump, causal ancestors). NESTED VALUES as the code '
            'treats them (one version per leaf path, recursive merge of dicts, a non-dict replaces / gets replaced). '
            'Single merge (Props.C05): merge_value_rule / merge_node_rule / merge_dict_rule (the structural recursion), '
            'merge_leaf_rule (closed form along a path), stale_copy_never_wins and newer_value_wins at any depth '
            '(hypothesis: no non-dict above the path on the other side), merged_version_is_max, '
            'merge_order_independent_partial (commutativity up to ties), merge_associative (no tie hypothesis), '
            'later_publish_wins_partial (every leaf of a task\'s own publication wins over the context it inherited '
            'in either merge order; excluded input explicit: the inherited value holds a scalar where the new one '
            'has a dict), later_publish_wins_full_fails (witness of known finding G), outbound_lookup, lookup_priority, '
            'lookup_missing. WHOLE HISTORIES (Props.C05Causal, induction over the topological task list, parents '
            'folded in any listed order, hypothesis StableHist = shape-stable republication of the leaf path, '
            'decidable): inv_reachable, stale_copy_never_visible (for every DAG, task and leaf path the visible '
            'leaf is the publication of a causal ancestor that is MAXIMAL among the publishers: a stale copy never '
            'wins), latest_publisher_visible (if the publishers among the ancestors have a latest one the visible '
            'leaf is exactly its publication), unpublished_falls_back (else the variable is absent from the '
            'inbound context and the ContextView lookup goes on to environment / vars / input), '
            'visible_order_independent (same DAG, parents listed in another order: same visible leaf). WEAKER HYPOTHESIS '
            '(Props.C05Drop; StablePub2 = a publication may republish the variable WHOLESALE WITHOUT the leaf, '
            'DropsLow = a task that drops the leaf has seen at most one generation of it; both decidable): '
            'inv_reachable_dropping, stale_copy_never_visible_dropping, latest_publisher_visible_dropping (the '
            'latest publisher\'s leaf, or no leaf at all and then a causal ancestor dropped it), and '
            'drop_after_two_generations_fails (without DropsLow the statement is FALSE of the code: a variant of '
            'known finding G, replayed on the real functions by the hist stream), dropsLow_from_dag and '
            'stale_copy_never_visible_dag (hypotheses on the history alone). WORKFLOW OUTPUT (Props.C05Final; model '
            'Hist.finalContext = DirectWorkflowController.evaluate_workflow_final_context: the end tasks read in batches, '
            'every batch folded into the accumulated context with evaluate_upstream_context(additive_context=...), and '
            'Hist.workflowOutput = evaluate_workflow_output for variable references): final_context_folds_all (for '
            'EVERY batch size >= 1 and every number of end tasks the final context is one n-ary fold over a PERMUTATION '
            'of all end tasks), final_version_dominates_all, final_leaf_from_max_end, final_keeps_every_leaf, '
            'final_batch_size_independent, join_rows_order_independent (n-ary order independence), '
            'output_reads_final_context_first, output_default_is_final_context. '
            'Ties: stream final = the REAL evaluate_workflow_final_context and '
            'evaluate_workflow_output over the end tasks of every history, read in batches of 1-4 or 20 rows in a shuffled '
            'order, vs the model + monitors (the final context is what a join of ALL end tasks would see; every leaf an '
            'end task published is in the output; another batch size shows the same); engine level: wide forks with no '
            'closing join run with the database batch size patched down to 2/3, monitors on the real workflow output; stream '
            'ctx = the REAL functions on generated publish histories over fork/join DAGs, every inbound context in '
            'ALL row orders (joins <=4 parents) vs the model; stream hist = the Lean run of the WHOLE history vs '
            'the real inbound/outbound context of every task + the theorems\' hypothesis StableHist evaluated by '
            'Lean vs read off the history; stream flow (engine level) = generated programs and the same publish-'
            'history motifs as real workflows on the REAL engine under random schedules, every stored inbound '
            'context recomputed by the model from the real rows. Monitors (statement, independent of the model): '
            'LEAF-granular causal monitor on the inbound context of every task in every row order (function '
            'level) and of every completed task execution (engine level): the visible value of a leaf path is '
            'that of a maximal publisher of the leaf, never a copy of a publisher that another publisher '
            'causally follows, and the unique latest one\'s when there is one; not visible only below a wholesale '
            'republication nothing follows; whole-variable latest-publisher and order-independence monitors; '
            'stored contexts never modified by evaluation / never changed after completion. "Evaluation never '
            'modifies stored contexts" is vacuous in Lean (immutable values): monitor only.',
    'note': 'version keys are built as repo patch 28 builds them (every name of the path escaped, Ctx.esc, joined by "."): '
            'against a tree without that patch histories with dotted variable names (motif gen_dotted, 5%) show the '
            'finding version-key-collision (fixed by 9d97e9f1) and model and code disagree; '
            'md5 version-key hashing modelled as identity; YAQL/Jinja evaluation not modelled; the whole-history '
            'theorems assume shape-stable republication of the leaf path (StableHist, decidable; evaluated by Lean '
            'on every generated history): republication with another shape is known finding G '
            '(later_publish_wins_full_fails), covered by correspondence + monitor; the theorems are about the '
            'data-flow model run (Mistral.Hist), which is tied to the real functions per history (stream hist) and '
            'to the engine per task execution (stream flow), not to the engine model L5. DropsLow is a condition on the '
            'model run (inbound version of the dropping task <= 1), evaluated by Lean and read off the real '
            'contexts by the hist stream; dropsLow_from_dag proves it from a condition on the DAG alone (no two publishers '
            'of the leaf, one following the other, above a dropping task: the version of a path counts generations of '
            'its publishers, Lemmas/HistChain), which is also what the monitor uses to delimit finding G.',
}
RULE = ('stream ctx: generated publish histories over fork/join DAGs (50% random DAGs with several roots, scalar / '
        'list / nested dict values, leaf values unique per publisher, parents listed in random order; 28% motif '
        '"nested dict before a fork, one branch republishes a leaf, a sibling republishes the dict wholesale without '
        'it (or shape-stable), others inherit, 2-4 chained joins"; 22% motif ">=3 contexts merged whose base never '
        'saw the variable, published twice along one branch, older copy in a sibling, independent roots"), every '
        'inbound context computed by the real data_flow functions in ALL row orders (joins with <=4 parents) and '
        'compared with Mistral.Ctx; non-trivial = a join (>=2 parents) or a non-empty publish; distinct = distinct '
        'function inputs. Stream hist: one evaluation per task of every history (Lean run of the whole history vs '
        'real contexts) and per leaf path (StableHist); non-trivial = join or publishing task, every path. Stream '
        'flow: generated single-activation programs (55%) and publish-history motifs rendered as workflows (45%) on '
        'the real engine; one evaluation per completed task execution with >=1 triggering execution; non-trivial = '
        'a join or a publishing task. Stream final: one evaluation per history (end tasks in a shuffled order, batch '
        'size 1-4 or 20; 15% of the histories are the motif "many end tasks": a wide fork no join closes, leaves at '
        'independent roots, a variable republished along one branch) + three output clauses; non-trivial = more end '
        'tasks than the batch size / a non-empty output clause')
TRUSTED = ['python dict order irrelevant (canonicalised by sorting keys)',
           'the database read of the end tasks (get_completed_task_executions_as_batches, slices of 20 rows) is '
           'replaced: function level by slices of 1-4 or 20 rows of synthetic task executions handed to the real '
           'evaluate_workflow_final_context; engine level by the same query sliced by 2 or 3 rows instead of 20 '
           '(flow_stream.patch_batches), so that a handful of end tasks spans several batches']
LEAN_MODULES = ['Mistral.Props.C05', 'Mistral.Props.C05Causal', 'Mistral.Props.C05Drop', 'Mistral.Props.C05Final']


def correspond(ctx):
    from vlib import par
    par.run_parallel(ctx, 'harness.ctx_stream', 'run_chunk', [{'n_histories': ctx.n(150, 4000)}] * 14)
    par.run_parallel(ctx, 'harness.flow_stream', 'run_chunk', [{'n_programs': ctx.n(25, 500)}] * 14)


def search(ctx):
    # the statement monitors of both streams are the oracle (leaf-granular: they also decide histories with
    # concurrent publishers of one variable and wholesale republication); a wider sample of histories, half
    # of them the fork/join motifs in which a wrong version bookkeeping shows
    from vlib import par
    par.run_parallel(ctx, 'harness.ctx_stream', 'run_chunk', [{'n_histories': 1500}] * 14)
    if ctx.violations:
        return
    # engine level: the same monitor on the real rows of generated programs under random schedules
    par.run_parallel(ctx, 'harness.flow_stream', 'run_chunk', [{'n_programs': 120}] * 14)


def replay(ctx, rep):
    rep = rep.get('replay', rep)
    if rep.get('stream') == 'flow':
        from harness import flow_stream
        flow_stream.replay(ctx, rep)
    elif 'history' in rep or rep.get('lookup'):
        from harness import ctx_stream
        ctx_stream.replay(ctx, rep)
