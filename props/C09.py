"""C09 — a sub-workflow and its parent task stay consistent.

Tie A: translate/subwf_facts.py (wf_params keys and the position of the undeclared-input loop in
WorkflowAction.schedule, EngineClient.start_workflow keywords, the workbook workflow-name pattern, the
validation_mode default) -> Gen/SubWfFacts.lean.
Tie B: harness/subwf_stream.py: streams `resolve`, `schedule` (function level, real functions with
recording collaborators) and `tree` (real engine, generated root/middle/leaf definitions under generated
schedules) against Mistral.SubWf through the compiled driver.
Monitor: the statement read on the final committed rows of every `tree` run and on every call leaving
WorkflowAction.schedule / resolve_workflow_definition.
"""
import json

GEN = ['subwf_facts', 'race_scripts']
LEAN_MODULES = ['Mistral.Props.C09', 'Mistral.Props.C03RaceTask']
MANIFEST = {
    'technique': 'Lean 4 theorems over an executable model of the sub-workflow start and hand-off path '
                 '(name resolution incl. str.rstrip as a character set, root id / namespace / env propagation, '
                 'splitting of undeclared input into execution params, child-result message and the parent task), '
                 'structural facts of the source regenerated on every run, differential runs of the model against '
                 'the real functions and the real engine, and a monitor of the statement on the engine rows',
    'text': 'Theorems (all inputs / all event orders incl. duplicate deliveries): over all histories of the execution tree '
            'including reruns of a task INSIDE a failed or cancelled sub-workflow (_recursive_rerun re-opens the execution '
            'and its ancestors) an execution that is not completed is not accepted (running_child_not_accepted; tied by '
            'the statement monitor running-child-accepted of the C07 stream, which generates such inner reruns); the parent task takes exactly the '
            'child final state and, on SUCCESS, the child output as result; exactly one result message per finished '
            'child and the completion logic of the task runs at most once (duplicate delivery is a no-op); every '
            'descendant records the root execution and the root namespace; get_workflow_environment_dict of any '
            'descendant is the root env; splitInput is a partition and the child params are characterised key by key '
            '(after fix f99833f3: for every input either the schedule is refused with the declared InputException or the four '
            'link parameters are the engine\'s; the rpc keyword clash remains as _full_fails + _partial); resolve_workflow_definition '
            'looks up wb.child then child for EVERY workbook / workflow name (after fix 52ef6286). Correspondence: real '
            'resolve_workflow_definition and WorkflowAction.schedule vs the model on generated names/inputs; real '
            'engine runs (nesting <=3, plain and with-items callers, by name / workbook-relative / expression, both '
            'start_subworkflows_via_rpc settings, namespaces, root env, child success/error/cancel, stop of a child, '
            'random schedules, duplicated child-result messages) vs the model row by row. STATEMENT GRANULARITY '
            '(docs/RACE.md), parent side of report_once: Mistral.Props.C03RaceTask over the script of Task.complete / '
            'Task.set_state REGENERATED from tasks.py (RegularTask.on_action_complete ends in it for child-workflow results): '
            'for ALL interference task_complete_atomic, task_keeps_finished, dispatch_only_by_winner, dispatch_at_most_once '
            '(the same child result delivered concurrently by two engines: one compare-and-swap on the parent task row '
            'wins, only the winner runs the completion logic); tie: race-task stream (the real child-result message with '
            'the real duplicate committed by a second session at every pre-lock SQL statement on the task row). The child '
            'side (set_state CAS, one result message registered by the winner only) is Props.C03Race *_atomic (C03, C11).',
    'note': 'In Mistral.SubWf transactions are atomic and serialised as in one engine process; the multi-process race on '
            'the CAS of Workflow.set_state (child side) and of Task.set_state (parent side, plain tasks) IS exhibited at '
            'SQL-statement granularity (Mistral.Race, race-wf / race-task streams); NOT for with-items parents '
            '(WithItemsTask.on_action_complete under its named lock) and not for positions after the first successful '
            'write (row-lock wait: modelled, sqlite cannot execute it); SQL '
            'semantics of load_workflow_definition are exercised only by the engine stream; YAQL/Jinja, PyYAML, '
            'jsonschema trusted; Lean kernel + propext/Classical.choice/Quot.sound',
}
RULE = ('resolve: generated (parent execution name, parent spec name, child name, namespace, definition set) over the '
        'alphabet "abw1._"; non-trivial = parent inside a workbook. schedule: generated parent params/root id, '
        'declared-input list and task input (incl. reserved and rpc keyword names), both start modes; non-trivial = at '
        'least one undeclared key. tree: generated case = nesting depth 2..3 x packaging (standalone / workbook / '
        'mixed, decoy definitions, namespaces) x caller kind (plain / with-items, concurrency) x reference style '
        '(short / full / expression) x undeclared inputs x child outcomes (oracle error/cancel, operator stop of a '
        'running child) x schedule policy x duplicated child-result messages x start mode; non-trivial = at least one '
        'child execution reached a final state; distinct = distinct case descriptions')
TRUSTED = [
    'translator translate/subwf_facts.py (AST of engine/actions.py, rpc/clients.py, lang/v2/workbook.py, config.py; '
    'fails closed on any other shape)',
    'engine harness seams (post-commit thread, rpc client, scheduler, executor, clock) and the local jsonschema '
    'meta-validation cache of harness/subwf_stream.py (instances are still validated)',
    'the SQL of db_api.load_workflow_definition is represented by FakeDbApi in the function-level stream and by the '
    'real database only in the tree stream',
    'expressions: only `$.x`, `task().result`, `env().get(k)`, literals are generated; YAQL itself is not modelled',
]
ASSUMPTIONS = ['one engine process: each entry point is one atomic transaction (DESIGN 2.3)']


def _sizes(ctx):
    # per worker chunk (14 chunks)
    if ctx.thorough():
        return {'n_resolve': 15000, 'n_schedule': 8000, 'n_tree': 800}
    return {'n_resolve': 1500, 'n_schedule': 1000, 'n_tree': 36}


def correspond(ctx):
    from vlib import par
    par.run_parallel(ctx, 'harness.subwf_stream', 'run_chunk', [_sizes(ctx)] * 14)
    # statement granularity: two engines deliver the same child result / a racing completion of the parent task
    par.run_parallel(ctx, 'harness.race_driver', 'run_chunk', [{'family': 'task'}])


def search(ctx):
    """Failing-input search after a broken obligation / disagreement: the monitors of all three streams on a
    widened population (more cases, more reserved keys, more operator stops); the corpus witnesses run again."""
    from vlib import par
    par.run_parallel(ctx, 'harness.race_driver', 'run_chunk', [{'family': 'task'}])
    if ctx.violations:
        return
    kw = {'n_resolve': 4000, 'n_schedule': 3000, 'n_tree': 120,
          'gen_kw': {'p_reserved': 0.15, 'p_dotted': 0.05, 'p_stop': 0.35}}
    seed = ctx.seed
    ctx.seed = seed + 1000
    try:
        par.run_parallel(ctx, 'harness.subwf_stream', 'run_chunk', [kw] * 14)
    finally:
        ctx.seed = seed


def replay(ctx, rep):
    from harness import boot
    boot.boot()
    from harness import subwf_stream as S
    r = rep['replay']
    n0 = len(ctx.violations) + len(ctx.known_hit)
    S.run_replay(ctx, {'kind': r['kind'], 'case': r['case']})
    print('replay: kind=%s -> %d hit(s)' % (r['kind'], len(ctx.violations) + len(ctx.known_hit) - n0))
    for v in ctx.violations:
        print('  ', v['what'][:300], json.dumps(v['signature']))
