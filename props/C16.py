"""C16 — every REST operation is authorised and guarded before it has any effect.

Tie A: translate/endpoints.py (exposed controller methods + acl.enforce calls, AST),
       translate/policies.py (rule -> check string, by import), translate/rest_tables.py.
Tie B: stream `rest` (every generated endpoint x rule denied/allowed x resource present/absent
       through the real WSGI app vs Model.Rest.handle), stream `policy` (random sets of denied
       rules / flags / actors), stream `guards` (exhaustive current state x requested state x
       fields for execution/task/action-execution PUT and DELETE vs the Lean guard functions).
Monitor: the statement read directly on the same runs (403 + identical table hash + no engine
       call when the documented rule is denied; cross-project listing refused for a non-admin
       who may list; scope=public refused without the publicize rule; only the documented moves
       reach the engine / the database).
"""
import json

GEN = ['endpoints', 'policies', 'rest_tables']
MANIFEST = {
    'technique': 'Lean 4 theorems over the regenerated table of exposed controller methods/acl.enforce calls '
                 'and policy registry, plus a hand model of the state guards; differential check against the '
                 'real WSGI application',
    'text': 'Theorems: for every exposed controller method outside an explicit allow-list (roots, info, '
            'maintenance, validators, _lookup) the first statement is an unconditional acl.enforce of the '
            'documented rule and only harmless calls precede later conditional enforces, hence (all databases, '
            'all policies, all requests) a denied applicable rule gives 403 with the database unchanged; '
            'every method accepting all_projects is guarded by an admin-only <family>:list:all_projects rule; '
            'scope=public '
            'requires <family>:publicize; execution PUT only to PAUSED/RUNNING/final, never description with '
            'state, task PUT only from ERROR to RUNNING/SKIPPED, action PUT only to the five supported states, '
            'no delete of an unfinished execution without force, the force text being parsed as a boolean '
            '(all states/field combinations). The model is '
            'tied to the code by running every generated endpoint x rule denied/allowed x resource '
            'present/absent and the exhaustive guard cross-products through the real pecan application on '
            'in-memory sqlite with a table hash before/after.',
    'note': 'the list of harmless calls/decorators and the allow-list of unauthenticated methods are explicit in '
            'the theorem statements; keystone token validation, trusts and the engine behind the RPC client are '
            'outside (engine client recorded); wsme argument parsing happens before the method body',
}
RULE = ('rest: one case = (generated endpoint, scenario) with scenario in default/deny-each-enforced-rule/'
        'deny-with-guard-off/deny-documented-rule x resource present/absent, plus non-admin/admin all_projects '
        'and scope=public requests; non-trivial when a rule is denied or a guarded enforce applies (distinct = '
        'distinct (endpoint, scenario, presence)). policy: seeded random (endpoint, set of denied rules, flags, '
        'actor); non-trivial when the model predicts 403. guards: the full cross product current state x '
        'requested state x fields (description/env/reset/with-items/names/force/config); non-trivial when the '
        'request carries a state or a force/flag that a guard inspects')
TRUSTED = [
    'translators translate/endpoints.py (AST over api/controllers/**), translate/policies.py (import of '
    'mistral.policies), translate/rest_tables.py; an endpoint mistranslated is caught only through the rest stream',
    'the lists harmlessCalls / harmlessDecorators / unauthenticated in Props/C16.lean are judgements read from '
    'the code (request parsing, logging, pure validation), not verified',
    'pecan routing, wsme argument/body parsing and the hooks (AuthHook, MaintenanceHook reads the maintenance '
    'status row before every non-GET request, ContextHook) run before the controller method and are exercised '
    'but not modelled; token validation (mistral.auth handler) is replaced by a no-op, the actor is supplied '
    'through the identity headers MistralContext.from_environ reads',
    'the engine behind rpc.get_engine_client is a recorder (its calls are the observable effect); keystone '
    'trusts are faked; oslo.policy evaluates the check strings (the model only distinguishes !, @, '
    'rule:admin_only, rule:admin_or_owner)',
    'sqlite in place of the production RDBMS; one process',
]
ASSUMPTIONS = ['PUT /maintenance (unauthenticated by design, changes the maintenance row) is on the allow-list and is not exercised']

# ----------------------------------------------------------------------------- independent tables
# documented rule of each operation, read from the policy documentation / API reference
# (family of the collection that the URL ends with + action of the verb); independent of the translator
DOCUMENTED = {
    '/v2/action_executions': 'action_executions', '/v2/actions': 'actions', '/v2/code_sources': 'code_sources',
    '/v2/cron_triggers': 'cron_triggers', '/v2/dynamic_actions': 'dynamic_actions',
    '/v2/environments': 'environments', '/v2/event_triggers': 'event_triggers', '/v2/executions': 'executions',
    '/v2/executions/{id}/executions': 'executions', '/v2/executions/{id}/report': 'executions',
    '/v2/executions/{id}/tasks': 'tasks', '/v2/tasks': 'tasks',
    '/v2/tasks/{id}/action_executions': 'action_executions', '/v2/tasks/{id}/executions': 'executions',
    '/v2/tasks/{id}/workflow_executions': 'executions', '/v2/workbooks': 'workbooks',
    '/v2/workflows': 'workflows', '/v2/workflows/{id}/members': 'members',
}
ACTION = {'get': 'get', 'get_all': 'list', 'post': 'create', 'put': 'update', 'delete': 'delete'}
UNAUTH = {('/', 'index'), ('/v2', 'index'), ('/info', 'get'), ('/maintenance', 'get'), ('/maintenance', 'put'),
          ('/v2/actions/validate', 'post'), ('/v2/workbooks/validate', 'post'), ('/v2/workflows/validate', 'post'),
          ('/v2/workflows', '_lookup')}
DOC_MOVES_EXEC = ('PAUSED', 'RUNNING', 'SUCCESS', 'ERROR', 'CANCELLED')
DOC_MOVES_ACTION = ('SUCCESS', 'ERROR', 'CANCELLED', 'PAUSED', 'RUNNING')
FINAL = ('SUCCESS', 'ERROR', 'CANCELLED')
WF_STATES = ('IDLE', 'RUNNING', 'PAUSED', 'SUCCESS', 'ERROR', 'CANCELLED')
ALL_STATES = ('IDLE', 'WAITING', 'RUNNING', 'DELAYED', 'PAUSED', 'SUCCESS', 'CANCELLED', 'ERROR', 'SKIPPED')


def documented_rule(ep):
    if (ep['path'], ep['method']) in UNAUTH:
        return None
    fam = DOCUMENTED.get(ep['path'])
    act = ACTION.get(ep['method'])
    if fam is None or act is None:
        return False         # an operation this check has no documentation for
    return '%s:%s' % (fam, act)


# ----------------------------------------------------------------------------- request templates
def templates(R):
    """(path, method) -> function(present, flags) -> request dict.  `ok`: statuses of a permitted request."""
    from harness import rest_driver as rd
    fx = R.fx
    AB = rd.ABSENT

    def pick(present, key):
        return fx[key] if present else AB

    def wfdef(n):
        return rd.WF_DEF % n
    T = {}

    def reg(path, method, fn):
        T[(path, method)] = fn
    # ---- action executions
    reg('/v2/action_executions', 'delete', lambda p, f: dict(
        m='DELETE', url='/v2/action_executions/' + pick(p, 'actex_adhoc_A_SUCCESS'), ok={204}, absent={404},
        conf={'allow_action_execution_deletion': True}))
    reg('/v2/action_executions', 'get', lambda p, f: dict(
        m='GET', url='/v2/action_executions/' + pick(p, 'actex_adhoc_A_SUCCESS'), ok={200}, absent={404}))
    reg('/v2/action_executions', 'get_all', lambda p, f: dict(m='GET', url='/v2/action_executions', ok={200}))
    reg('/v2/action_executions', 'post', lambda p, f: dict(
        m='POST', url='/v2/action_executions', body={'name': 'std.noop'}, ok={201}))
    reg('/v2/action_executions', 'put', lambda p, f: dict(
        m='PUT', url='/v2/action_executions/' + pick(p, 'actex_adhoc_A_RUNNING'),
        body={'state': 'SUCCESS', 'output': '{"a": 1}'}, ok={200}, absent={404}, engine_expected=True))
    # ---- actions
    reg('/v2/actions', 'delete', lambda p, f: dict(
        m='DELETE', url='/v2/actions/' + (fx['act_A_private'] if p else 'no_such_action'), ok={204}, absent={404}))
    reg('/v2/actions', 'get', lambda p, f: dict(
        m='GET', url='/v2/actions/' + (fx['act_A_private'] if p else 'no_such_action'), ok={200}, absent={404}))
    reg('/v2/actions', 'get_all', lambda p, f: dict(m='GET', url='/v2/actions', ok={200}))
    reg('/v2/actions', 'post', lambda p, f: dict(
        m='POST', url='/v2/actions', text=rd.ACT_DEF % 'act_new', params=scope(f), ok={201},
        public_probe=('GET', '/v2/actions/act_new')))
    reg('/v2/actions', 'put', lambda p, f: dict(
        m='PUT', url='/v2/actions', text=rd.ACT_DEF % ('act_A_private' if p else 'no_such_action'),
        params=scope(f), ok={200}, absent={404}, public_probe=('GET', '/v2/actions/act_A_private')))
    for coll in ('actions', 'workbooks', 'workflows'):
        reg('/v2/%s/validate' % coll, 'post', lambda p, f, coll=coll: dict(
            m='POST', url='/v2/%s/validate' % coll, text=wfdef('v1'), ok={200}))
    # ---- code sources (admin-only family)
    reg('/v2/code_sources', 'delete', lambda p, f: dict(
        m='DELETE', url='/v2/code_sources/' + (fx['cs_A_free'] if p else 'no_such_cs'), ok={204}, absent={404}))
    reg('/v2/code_sources', 'get', lambda p, f: dict(
        m='GET', url='/v2/code_sources/' + (fx['cs_A_private'] if p else 'no_such_cs'), ok={200}, absent={404}))
    reg('/v2/code_sources', 'get_all', lambda p, f: dict(
        m='GET', url='/v2/code_sources', params=allp(f), ok={200}, foreign='cs_B_private', listkey='code_sources'))
    reg('/v2/code_sources', 'post', lambda p, f: dict(
        m='POST', url='/v2/code_sources', text='z = 3\n', params=dict(name='cs_new', **scope(f)), ok={201},
        public_probe=('GET', '/v2/code_sources/cs_new')))
    reg('/v2/code_sources', 'put', lambda p, f: dict(
        m='PUT', url='/v2/code_sources/' + (fx['cs_A_private'] if p else 'no_such_cs'), text='z = 4\n',
        params=scope(f), ok={200}, absent={404}, public_probe=('GET', '/v2/code_sources/cs_A_private')))
    # ---- cron triggers
    reg('/v2/cron_triggers', 'delete', lambda p, f: dict(
        m='DELETE', url='/v2/cron_triggers/' + (fx['ct_A_private'] if p else 'no_such_ct'), ok={204}, absent={404}))
    reg('/v2/cron_triggers', 'get', lambda p, f: dict(
        m='GET', url='/v2/cron_triggers/' + (fx['ct_A_private'] if p else 'no_such_ct'), ok={200}, absent={404}))
    reg('/v2/cron_triggers', 'get_all', lambda p, f: dict(
        m='GET', url='/v2/cron_triggers', params=allp(f), ok={200}, foreign='ct_B_private', listkey='cron_triggers'))
    reg('/v2/cron_triggers', 'post', lambda p, f: dict(
        m='POST', url='/v2/cron_triggers', ok={201},
        body=dict({'name': 'ct_new', 'pattern': '*/5 * * * *', 'workflow_id': fx['wf_A_private']},
                  **scope(f)), public_probe=('GET', '/v2/cron_triggers/ct_new')))
    # ---- dynamic actions (admin-only family)
    reg('/v2/dynamic_actions', 'delete', lambda p, f: dict(
        m='DELETE', url='/v2/dynamic_actions/' + (fx['da_A_private'] if p else 'no_such_da'), ok={204}, absent={404}))
    reg('/v2/dynamic_actions', 'get', lambda p, f: dict(
        m='GET', url='/v2/dynamic_actions/' + (fx['da_A_private'] if p else 'no_such_da'), ok={200}, absent={404}))
    reg('/v2/dynamic_actions', 'get_all', lambda p, f: dict(
        m='GET', url='/v2/dynamic_actions', params=allp(f), ok={200}, foreign='da_B_private',
        listkey='dynamic_actions'))
    reg('/v2/dynamic_actions', 'post', lambda p, f: dict(
        m='POST', url='/v2/dynamic_actions', ok={201},
        body=dict({'name': 'da_new', 'class_name': 'K', 'code_source_id': fx['cs_A_private_id']}, **scope(f)),
        public_probe=('GET', '/v2/dynamic_actions/da_new')))
    reg('/v2/dynamic_actions', 'put', lambda p, f: dict(
        m='PUT', url='/v2/dynamic_actions', ok={200}, absent={404},
        body=dict({'name': 'da_A_private' if p else 'no_such_da', 'class_name': 'K2'}, **scope(f)),
        public_probe=('GET', '/v2/dynamic_actions/da_A_private')))
    # ---- environments
    reg('/v2/environments', 'delete', lambda p, f: dict(
        m='DELETE', url='/v2/environments/' + (fx['env_A_private'] if p else 'no_such_env'), ok={204}, absent={404}))
    reg('/v2/environments', 'get', lambda p, f: dict(
        m='GET', url='/v2/environments/' + (fx['env_A_private'] if p else 'no_such_env'), ok={200}, absent={404}))
    reg('/v2/environments', 'get_all', lambda p, f: dict(m='GET', url='/v2/environments', ok={200}))
    reg('/v2/environments', 'post', lambda p, f: dict(
        m='POST', url='/v2/environments', ok={201},
        body=dict({'name': 'env_new', 'variables': '{"a": 1}'}, **scope(f)),
        public_probe=('GET', '/v2/environments/env_new')))
    reg('/v2/environments', 'put', lambda p, f: dict(
        m='PUT', url='/v2/environments', ok={200}, absent={404},
        body=dict({'name': 'env_A_private' if p else 'no_such_env', 'description': 'changed'}, **scope(f)),
        public_probe=('GET', '/v2/environments/env_A_private')))
    # ---- event triggers
    reg('/v2/event_triggers', 'delete', lambda p, f: dict(
        m='DELETE', url='/v2/event_triggers/' + pick(p, 'et_A_private'), ok={204}, absent={404}))
    reg('/v2/event_triggers', 'get', lambda p, f: dict(
        m='GET', url='/v2/event_triggers/' + pick(p, 'et_A_private'), ok={200}, absent={404}))
    reg('/v2/event_triggers', 'get_all', lambda p, f: dict(
        m='GET', url='/v2/event_triggers', params=allp(f), ok={200}, foreign='et_B_private',
        listkey='event_triggers'))
    reg('/v2/event_triggers', 'post', lambda p, f: dict(
        m='POST', url='/v2/event_triggers', ok={201},
        body=dict({'name': 'et_new', 'exchange': 'x', 'topic': 't', 'event': 'e.new',
                   'workflow_id': fx['wf_A_private']}, **scope(f)),
        public_probe=None))
    reg('/v2/event_triggers', 'put', lambda p, f: dict(
        m='PUT', url='/v2/event_triggers/' + pick(p, 'et_A_private'), ok={200}, absent={404},
        body=dict({'name': 'et_renamed'}, **scope(f)), public_probe=None))
    # ---- executions
    reg('/v2/executions', 'delete', lambda p, f: dict(
        m='DELETE', url='/v2/executions/' + pick(p, 'wfex_A_SUCCESS'), ok={204}, absent={404}))
    reg('/v2/executions', 'get', lambda p, f: dict(
        m='GET', url='/v2/executions/' + pick(p, 'wfex_A_SUCCESS'), ok={200}, absent={404}))
    reg('/v2/executions', 'get_all', lambda p, f: dict(
        m='GET', url='/v2/executions', params=allp(f), ok={200}, foreign='wfex_B_SUCCESS', listkey='executions'))
    reg('/v2/executions', 'post', lambda p, f: dict(
        m='POST', url='/v2/executions', body={'workflow_id': fx['wf_A_private']}, ok={201}, engine_expected=True))
    reg('/v2/executions', 'put', lambda p, f: dict(
        m='PUT', url='/v2/executions/' + pick(p, 'wfex_A_RUNNING'), body={'state': 'PAUSED'}, ok={200},
        absent={404}, engine_expected=True))
    reg('/v2/executions/{id}/executions', 'get', lambda p, f: dict(
        m='GET', url='/v2/executions/%s/executions' % pick(p, 'wfex_A_SUCCESS'), ok={200}, absent={404}))
    reg('/v2/executions/{id}/report', 'get', lambda p, f: dict(
        m='GET', url='/v2/executions/%s/report' % pick(p, 'wfex_A_ERROR'), ok={200}, absent={404}))
    reg('/v2/executions/{id}/tasks', 'get_all', lambda p, f: dict(
        m='GET', url='/v2/executions/%s/tasks' % pick(p, 'wfex_A_ERROR'), ok={200}, absent={404}))
    # ---- tasks
    reg('/v2/tasks', 'get', lambda p, f: dict(
        m='GET', url='/v2/tasks/' + pick(p, 'task_A_ERROR_ERROR'), ok={200}, absent={404}))
    reg('/v2/tasks', 'get_all', lambda p, f: dict(m='GET', url='/v2/tasks', ok={200}))
    reg('/v2/tasks', 'put', lambda p, f: dict(
        m='PUT', url='/v2/tasks/' + pick(p, 'task_A_ERROR_ERROR'), body={'state': 'RUNNING', 'reset': True},
        ok={200}, absent={404}, engine_expected=True))
    reg('/v2/tasks/{id}/action_executions', 'get', lambda p, f: dict(
        m='GET', url='/v2/tasks/%s/action_executions/%s' % (fx['task_A_ERROR_SUCCESS'], pick(p, 'actex_task_A')),
        ok={200}, absent={404}))
    reg('/v2/tasks/{id}/action_executions', 'get_all', lambda p, f: dict(
        m='GET', url='/v2/tasks/%s/action_executions' % pick(p, 'task_A_ERROR_SUCCESS'), ok={200}, absent={200}))
    reg('/v2/tasks/{id}/executions', 'get', lambda p, f: dict(
        m='GET', url='/v2/tasks/%s/executions' % pick(p, 'task_A_ERROR_SUCCESS'), ok={200}, absent={404}))
    reg('/v2/tasks/{id}/workflow_executions', 'get_all', lambda p, f: dict(
        m='GET', url='/v2/tasks/%s/workflow_executions' % pick(p, 'task_A_ERROR_SUCCESS'), ok={200}, absent={200}))
    # ---- workbooks
    reg('/v2/workbooks', 'delete', lambda p, f: dict(
        m='DELETE', url='/v2/workbooks/' + (fx['wb_A_private'] if p else 'no_such_wb'), ok={204}, absent={404}))
    reg('/v2/workbooks', 'get', lambda p, f: dict(
        m='GET', url='/v2/workbooks/' + (fx['wb_A_private'] if p else 'no_such_wb'), ok={200}, absent={404}))
    reg('/v2/workbooks', 'get_all', lambda p, f: dict(m='GET', url='/v2/workbooks', ok={200}))
    reg('/v2/workbooks', 'post', lambda p, f: dict(
        m='POST', url='/v2/workbooks', text=rd.WB_DEF % 'wb_new', params=scope(f), ok={201},
        public_probe=('GET', '/v2/workbooks/wb_new')))
    reg('/v2/workbooks', 'put', lambda p, f: dict(
        m='PUT', url='/v2/workbooks', text=rd.WB_DEF % ('wb_A_private' if p else 'no_such_wb'), params=scope(f),
        ok={200}, absent={404}, public_probe=('GET', '/v2/workbooks/wb_A_private')))
    # ---- workflows
    reg('/v2/workflows', 'delete', lambda p, f: dict(
        m='DELETE', url='/v2/workflows/' + pick(p, 'wf_A_free'), ok={204}, absent={404}))
    reg('/v2/workflows', 'get', lambda p, f: dict(
        m='GET', url='/v2/workflows/' + pick(p, 'wf_A_private'), ok={200}, absent={404}))
    reg('/v2/workflows', 'get_all', lambda p, f: dict(
        m='GET', url='/v2/workflows', params=allp(f), ok={200}, foreign='wf_B_private', listkey='workflows'))
    reg('/v2/workflows', 'post', lambda p, f: dict(
        m='POST', url='/v2/workflows', text=wfdef('wf_new'), params=scope(f), ok={201},
        public_probe=('GET', '/v2/workflows/wf_new')))
    reg('/v2/workflows', 'put', lambda p, f: dict(
        m='PUT', url='/v2/workflows', text=wfdef('wf_A_private' if p else 'no_such_wf'), params=scope(f),
        ok={200}, absent={404}, public_probe=('GET', '/v2/workflows/wf_A_private')))
    # ---- members
    mbase = '/v2/workflows/%s/members'
    reg('/v2/workflows/{id}/members', 'delete', lambda p, f: dict(
        m='DELETE', url=(mbase % fx['wf_A_private']) + '/' + (rd.PROJ_B if p else 'nobody'), ok={204}, absent={404}))
    reg('/v2/workflows/{id}/members', 'get', lambda p, f: dict(
        m='GET', url=(mbase % fx['wf_A_private']) + '/' + (rd.PROJ_B if p else 'nobody'), ok={200}, absent={404}))
    reg('/v2/workflows/{id}/members', 'get_all', lambda p, f: dict(
        m='GET', url=mbase % pick(p, 'wf_A_private'), ok={200}, absent={200}))
    reg('/v2/workflows/{id}/members', 'post', lambda p, f: dict(
        m='POST', url=mbase % pick(p, 'wf_A_private'), body={'member_id': 'cccccccc'}, ok={201}, absent={404}))
    reg('/v2/workflows/{id}/members', 'put', lambda p, f: dict(
        m='PUT', url=(mbase % pick(p, 'wf_B_private')) + '/' + rd.PROJ_A, body={'status': 'accepted'},
        ok={200}, absent={404}))
    # ---- unauthenticated
    reg('/', 'index', lambda p, f: dict(m='GET', url='/', ok={200}))
    reg('/v2', 'index', lambda p, f: dict(m='GET', url='/v2/', ok={200}))
    reg('/info', 'get', lambda p, f: dict(m='GET', url='/info', ok={200, 400, 404, 500}))
    reg('/maintenance', 'get', lambda p, f: dict(m='GET', url='/maintenance', ok={200}))
    return T


def scope(f):
    return {'scope': 'public'} if f.get('scopePublic') else {}


def allp(f):
    d = {}
    if f.get('allProjects'):
        d['all_projects'] = 'true'
    if f.get('projectId'):
        d['project_id'] = f['projectId']
    return d


NOT_EXERCISED = {('/maintenance', 'put'), ('/v2/workflows', '_lookup')}


# ----------------------------------------------------------------------------- policy reading (model side)
class PolicyView(object):
    """The regenerated rule -> check string map + overrides; evaluates the four check strings the model knows."""

    def __init__(self, rules):
        self.base = {n: c for n, c, _ in rules}
        self.over = {}

    def check(self, rule):
        return self.over.get(rule, self.base.get(rule))

    def allowed(self, rule, is_admin, depth=0):
        c = self.check(rule)
        if c is None:
            raise ValueError('rule %s is not registered' % rule)
        return self._eval(c, is_admin, depth)

    def _eval(self, c, is_admin, depth):
        if depth > 5:
            raise ValueError('policy recursion')
        if c == '!':
            return False
        if c == '@' or c == '':
            return True
        if c == 'is_admin:True':
            return is_admin
        if c == 'is_admin:True or project_id:%(project_id)s':
            return True       # acl.enforce always passes the caller's own project as target
        if c.startswith('rule:'):
            return self.allowed(c[5:], is_admin, depth + 1)
        raise ValueError('check string not understood by the model: %r' % c)

    def denied_set(self, names, is_admin):
        return sorted(n for n in names if not self.allowed(n, is_admin))


def _is_admin(actor):
    from harness import rest_driver as rd
    return 'admin' in rd.ACTORS[actor]['X-Roles'].split(',')


def flags_for(ep, on=True):
    """Request flags that make every guard of the endpoint hold (or none of them)."""
    f = {'allProjects': False, 'projectId': False, 'scopePublic': False}
    if on:
        for x in ep['enforces']:
            if x['guard'] in ('allProjects', 'allProjectsOrProjectId'):
                f['allProjects'] = True
            if x['guard'] == 'scopePublic':
                f['scopePublic'] = True
    return f


class Runner(object):
    def __init__(self, ctx):
        from harness import rest_driver
        from translate import endpoints as tr_e
        from translate import policies as tr_p
        from vlib import core
        self.ctx = ctx
        self.R = rest_driver.get()
        self.R.restore()
        self.R.restore_rules()
        self.drv = ctx.driver()
        self.stale = False
        try:
            self.eps = tr_e.analyse(core.REPO)['endpoints']
        except Exception:
            # the translator refused (already recorded as a broken tie by the framework): keep the monitors
            # running on the last table that was generated (the one the Lean side still has)
            self.stale = True
            self.eps = []
            for i, e in enumerate(self.drv.call('rest.endpoints', {})):
                e = dict(e, idx=i, params=(['all_projects', 'project_id'] if e['acceptsAllProjects'] else []))
                self.eps.append(e)
        self.rules = tr_p.load_rules(core.REPO)
        self.T = templates(self.R)
        self.rule_names = [n for n, _, _ in self.rules]

    # one request through the app with everything observed
    def fire(self, ep, present, flags, actor, overrides):
        R = self.R
        tpl = self.T[(ep['path'], ep['method'])](present, flags)
        R.restore_rules()
        for k, v in overrides.items():
            R.set_rule(k, v)
        for k, v in (tpl.get('conf') or {}).items():
            R.CONF.set_override(k, v, group='api')
        before = R.db_hash()
        kw = {}
        if 'text' in tpl:
            kw = dict(body=tpl['text'], content_type='text/plain')
        elif 'body' in tpl:
            kw = dict(body=tpl['body'])
        status, body, calls = R.request(tpl['m'], tpl['url'], actor, params=tpl.get('params'), **kw)
        after = R.db_hash()
        obs = {'status': status, 'changed': before != after, 'engine': calls, 'tpl': tpl, 'body': body}
        return obs

    def cleanup(self):
        R = self.R
        R.restore_rules()
        if R.db_hash() != R.baseline:
            R.restore()
        else:
            R.CONF.clear_override('allow_action_execution_deletion', group='api')

    def model(self, ep, flags, actor, overrides):
        pv = PolicyView(self.rules)
        pv.over = dict(overrides)
        names = sorted(set(self.rule_names) | set(x['rule'] for x in ep['enforces']))
        try:
            denied = pv.denied_set(names, _is_admin(actor))
        except ValueError as e:
            return {'error': str(e)}
        out = self.drv.call('rest.handle', {'idx': ep['idx'], 'denied': denied,
                                            'allProjects': bool(flags.get('allProjects')),
                                            'projectId': bool(flags.get('projectId')),
                                            'scopePublic': bool(flags.get('scopePublic'))})
        return out

    def case(self, stream, ep, scenario, present, flags, actor, overrides, monitor_denied_rule=None):
        """Run one request; compare with the model; evaluate the monitor."""
        ctx = self.ctx
        key = [ep['path'], ep['method'], scenario, present]
        try:
            mo = self.model(ep, flags, actor, overrides)
            if not isinstance(mo, dict) or 'status' not in mo:
                ctx.disagree(stream, key, mo, 'model refused')
                return None
            if (mo['cls'], mo['method']) != (ep['cls'], ep['method']):
                ctx.disagree(stream, key, mo, 'endpoint index mismatch between Gen/Endpoints.lean and the translator')
                return None
            obs = self.fire(ep, present, flags, actor, overrides)
            tpl = obs['tpl']
            impl = '403' if obs['status'] == 403 else 'pass'
            nontrivial = mo['status'] == '403' or any(flags.get(k) for k in flags)
            ctx.evaluated(stream, key, nontrivial=nontrivial)
            ctx.count(stream, 'status:%d' % obs['status'])
            ctx.count(stream, 'scenario:' + scenario.split(':')[0])
            case_desc = {'endpoint': [ep['cls'], ep['method'], ep['path']], 'scenario': scenario, 'present': present,
                         'flags': flags, 'actor': actor, 'overrides': overrides,
                         'request': [tpl['m'], tpl['url'], tpl.get('params')]}
            if impl != mo['status']:
                ctx.disagree(stream, case_desc, mo, {'status': obs['status'], 'body': _short(obs['body'])})
            elif mo['status'] == 'pass':
                exp = tpl['ok'] if present else tpl.get('absent', tpl['ok'])
                if obs['status'] not in exp:
                    ctx.disagree(stream, case_desc, {'model': 'pass', 'expected_status': sorted(exp)},
                                 {'status': obs['status'], 'body': _short(obs['body'])})
            else:
                # model says 403: the model also says unchanged database, no engine call
                if obs['changed'] or obs['engine']:
                    ctx.disagree(stream, case_desc, {'status': '403', 'db': 'unchanged', 'engine': []},
                                 {'status': obs['status'], 'changed': obs['changed'], 'engine': obs['engine']})
            # ---- monitor: the statement, independent of the model
            if monitor_denied_rule is not None:
                if obs['status'] != 403 or obs['changed'] or obs['engine']:
                    what = ('%s %s with rule %s denied: status %d, database %s, engine calls %s' % (
                        tpl['m'], ep['path'], monitor_denied_rule, obs['status'],
                        'CHANGED' if obs['changed'] else 'unchanged', obs['engine']))
                    ctx.violation(what, dict(case_desc, kind='denied-but-effect', status=obs['status'],
                                             changed=obs['changed'], engine=obs['engine']),
                                  {'kind': 'denied-rule-not-enforced-first',
                                   'endpoint': '%s.%s' % (ep['cls'], ep['method']), 'rule': monitor_denied_rule})
            if (tpl.get('listkey') and not _is_admin(actor) and obs['status'] == 200 and
                    not flags.get('allProjects') and isinstance(obs['body'], dict)):
                ids = json.dumps(obs['body'].get(tpl['listkey']))
                if self.R.fx.get(tpl['foreign']) in ids or tpl['foreign'] in ids:
                    ctx.violation('GET %s by a non-admin without all_projects returned another project\'s private '
                                  'resource' % ep['path'], dict(case_desc, kind='list-leak'),
                                  {'kind': 'list-without-all-projects-leaks',
                                   'endpoint': '%s.%s' % (ep['cls'], ep['method'])})
            if len(ctx.cov['samples']) < 6 and nontrivial and ctx.rng.random() < 0.05:
                ctx.sample({'case': case_desc, 'model': mo, 'impl_status': obs['status'], 'db_changed': obs['changed']})
            return obs
        finally:
            self.cleanup()


def _short(b):
    s = json.dumps(b, default=str)
    return s[:300]


# ----------------------------------------------------------------------------- stream rest
def stream_rest(ctx, run):
    eps = run.eps
    # python view and Lean view of the table agree
    lean_eps = run.drv.call('rest.endpoints', {})
    mine = [{'cls': e['cls'], 'method': e['method'], 'http': e['http'], 'path': e['path'],
             'acceptsAllProjects': e['acceptsAllProjects'], 'acceptsScope': e['acceptsScope'],
             'enforces': [{'rule': x['rule'], 'guard': x['guard']} for x in e['enforces']]} for e in eps]
    if lean_eps != mine and not run.stale:
        ctx.disagree('rest', 'endpoint table', 'Gen/Endpoints.lean', 'translate.endpoints.analyse differs')
        return
    order = list(eps)
    ctx.rng.shuffle(order)
    for ep in order:
        k = (ep['path'], ep['method'])
        if k in NOT_EXERCISED:
            ctx.count('rest', 'not-exercised')
            continue
        if k not in run.T:
            ctx.disagree('rest', {'endpoint': [ep['cls'], ep['method'], ep['path']]},
                         'generated endpoint', 'no request template: an exposed method this check does not know')
            continue
        doc = documented_rule(ep)
        if doc is False:
            ctx.disagree('rest', {'endpoint': [ep['cls'], ep['method'], ep['path']]},
                         'generated endpoint', 'no documented rule known for this operation')
            continue
        has_item = 'absent' in run.T[k](True, {})
        presences = (True, False) if has_item else (True,)
        family_admin_only = ep['enforces'] and PolicyView(run.rules).check(ep['enforces'][0]['rule']) == 'rule:admin_only'
        owner = 'adminA' if family_admin_only else 'memberA'
        # ---- default policy, permitted caller
        for p in presences:
            run.case('rest', ep, 'default', p, flags_for(ep, False), owner, {})
        if doc is None:
            # deliberately unauthenticated: nothing else to deny; must not 5xx and must not write
            continue
        # ---- each enforced rule denied in turn (guards on), resource present/absent
        for x in ep['enforces']:
            fl = flags_for(ep, True)
            for p in presences:
                run.case('rest', ep, 'deny:' + x['rule'], p, fl, 'adminA' if x['guard'] != 'always' else owner,
                         {x['rule']: '!'},
                         monitor_denied_rule=x['rule'] if x['rule'] == doc else None)
            if x['guard'] != 'always':
                # guard off: the conditional rule is not consulted
                run.case('rest', ep, 'deny-guard-off:' + x['rule'], True, flags_for(ep, False), owner,
                         {x['rule']: '!'})
        # ---- monitor: the *documented* rule denied => 403, nothing changed (even if the table says otherwise)
        if doc not in [x['rule'] for x in ep['enforces']]:
            for p in presences:
                run.case('rest', ep, 'deny-documented:' + doc, p, flags_for(ep, False), owner, {doc: '!'},
                         monitor_denied_rule=doc)
        # ---- cross-project listing
        if ep['acceptsAllProjects'] or 'all_projects' in ep['params']:
            all_projects_cases(ctx, run, ep, doc)
        # ---- making a resource public
        if ep['http'] in ('POST', 'PUT') and 'public_probe' in run.T[k](True, {'scopePublic': True}):
            publicize_cases(ctx, run, ep, doc)


def all_projects_cases(ctx, run, ep, doc):
    fam = doc.split(':')[0]
    fl = {'allProjects': True, 'projectId': False, 'scopePublic': False}
    # a caller who may list (the plain list rule lets him) but is not admin
    over = {doc: '@'}
    obs = run.case('rest', ep, 'all_projects:non-admin', True, fl, 'memberA', over)
    if obs is not None:
        tpl = obs['tpl']
        ctx.count('rest', 'all_projects:non-admin:%d' % obs['status'])
        if obs['status'] != 403:
            foreign = None
            if isinstance(obs['body'], dict) and tpl.get('listkey') in obs['body']:
                ids = json.dumps(obs['body'][tpl['listkey']])
                foreign = run.R.fx.get(tpl['foreign']) in ids or tpl['foreign'] in ids
            ctx.violation(
                'GET %s?all_projects=true by a non-admin who may list (%s allowed, no admin-only rule passed) '
                'answered %d%s' % (ep['path'], doc, obs['status'],
                                   ' and returned another project\'s private resource' if foreign else ''),
                {'kind': 'all-projects', 'endpoint': [ep['cls'], ep['method'], ep['path']], 'overrides': over,
                 'actor': 'memberA', 'status': obs['status'], 'foreign_private_row_returned': foreign},
                {'kind': 'all-projects-without-admin-rule', 'endpoint': '%s.%s' % (ep['cls'], ep['method'])})
    # the admin is served and sees the other project's private rows
    obs = run.case('rest', ep, 'all_projects:admin', True, fl, 'adminA', {})
    if obs is not None and obs['status'] != 200:
        ctx.disagree('rest', {'endpoint': ep['path'], 'scenario': 'all_projects:admin'}, 200, obs['status'])
    # the relaxed-rule situation: <family>:list:all_projects must be an admin-only rule
    pv = PolicyView(run.rules)
    r = fam + ':list:all_projects'
    if pv.check(r) is not None:
        for actor in ('memberA', 'viewerA'):
            obs = run.case('rest', ep, 'all_projects:default-non-admin:' + actor, True, fl, actor, {})
            if obs is not None and obs['status'] != 403:
                ctx.violation('GET %s?all_projects=true by a non-admin (%s) under the default policy answered %d' % (
                    ep['path'], actor, obs['status']),
                    {'kind': 'all-projects-default', 'endpoint': [ep['cls'], ep['method'], ep['path']],
                     'actor': actor, 'status': obs['status']},
                    {'kind': 'all-projects-rule-not-admin-only', 'endpoint': '%s.%s' % (ep['cls'], ep['method'])})
    if 'project_id' in ep['params']:
        # filtering on another project's id must not widen what a non-admin sees
        from harness import rest_driver as rd
        fl2 = {'allProjects': False, 'projectId': rd.PROJ_B, 'scopePublic': False}
        obs = run.case('rest', ep, 'project_id:non-admin', True, fl2, 'memberA', {doc: '@'})
        if obs is not None and obs['status'] != 403:
            tpl = obs['tpl']
            body = obs['body']
            if isinstance(body, dict) and tpl.get('listkey') in body:
                ids = json.dumps(body[tpl['listkey']])
                if run.R.fx.get(tpl['foreign']) in ids or tpl['foreign'] in ids:
                    ctx.violation(
                        'GET %s?project_id=<other project> by a non-admin returned that project\'s private resource'
                        % ep['path'],
                        {'kind': 'all-projects', 'endpoint': [ep['cls'], ep['method'], ep['path']],
                         'actor': 'memberA', 'status': obs['status']},
                        {'kind': 'project-id-filter-leaks', 'endpoint': '%s.%s' % (ep['cls'], ep['method'])})


def publicize_cases(ctx, run, ep, doc):
    fam = doc.split(':')[0]
    fl = {'allProjects': False, 'projectId': False, 'scopePublic': True}
    # a caller allowed the create/update rule but denied <family>:publicize
    over = {doc: '@', fam + ':publicize': '!'}
    for p in ((True, False) if 'absent' in run.T[(ep['path'], ep['method'])](True, fl) else (True,)):
        obs = run.case('rest', ep, 'publicize:denied', p, fl, 'memberA', over)
        if obs is not None and (obs['status'] != 403 or obs['changed'] or obs['engine']):
            ctx.violation('%s %s?scope=public by a caller denied %s:publicize answered %d, database %s' % (
                ep['http'], ep['path'], fam, obs['status'], 'CHANGED' if obs['changed'] else 'unchanged'),
                {'kind': 'publicize', 'endpoint': [ep['cls'], ep['method'], ep['path']], 'overrides': over,
                 'actor': 'memberA', 'present': p, 'status': obs['status'], 'changed': obs['changed']},
                {'kind': 'publicize-not-required', 'endpoint': '%s.%s' % (ep['cls'], ep['method'])})
    # default policy, plain member: publicize is admin-only
    obs = run.case('rest', ep, 'publicize:default-member', True, fl, 'memberA', {doc: '@'})
    # the admin may
    run.case('rest', ep, 'publicize:admin', True, fl, 'adminA', {})


# ----------------------------------------------------------------------------- stream policy (random)
def stream_policy(ctx, run, n):
    eps = [e for e in run.eps if (e['path'], e['method']) in run.T and e['enforces']]
    names = run.rule_names
    for _ in range(n):
        ep = ctx.rng.choice(eps)
        k = ctx.rng.choice([0, 1, 1, 2, 3, 6])
        pool = [x['rule'] for x in ep['enforces']] * 3 + names
        over = {}
        for r in ctx.rng.sample(pool, min(k, len(pool))):
            over[r] = ctx.rng.choice(['!', '!', '@', 'rule:admin_only', 'rule:admin_or_owner'])
        if 'admin_only' in over or 'admin_or_owner' in over:
            over.pop('admin_only', None)
            over.pop('admin_or_owner', None)
        fl = {'allProjects': False, 'projectId': False, 'scopePublic': False}
        if ep['acceptsAllProjects'] and ctx.rng.random() < 0.6:
            fl['allProjects'] = True
        if ep['acceptsScope'] and ctx.rng.random() < 0.6:
            fl['scopePublic'] = True
        actor = ctx.rng.choice(['memberA', 'memberA', 'adminA'])
        has_item = 'absent' in run.T[(ep['path'], ep['method'])](True, {})
        present = True if not has_item else ctx.rng.random() < 0.7
        mo = run.model(ep, fl, actor, over)
        if isinstance(mo, dict) and mo.get('status') == 'pass' and actor == 'memberA':
            # a permitted member request on another-family resource may legitimately 404/403 elsewhere; only
            # requests the template was built for (owner) are compared on their status set
            pass
        run.case('policy', ep, 'random:' + json.dumps([sorted(over.items()), fl, actor]), present, fl, actor, over)


# ----------------------------------------------------------------------------- stream cross (thorough)
def stream_cross(ctx, run):
    """Every exercised endpoint x every registered rule denied alone (guards on): only the rules the table lists
    for the endpoint may matter."""
    for ep in run.eps:
        k = (ep['path'], ep['method'])
        if k not in run.T or k in NOT_EXERCISED:
            continue
        fam_admin = ep['enforces'] and PolicyView(run.rules).check(ep['enforces'][0]['rule']) == 'rule:admin_only'
        for rule in run.rule_names:
            if rule in ('admin_only', 'admin_or_owner'):
                continue
            run.case('cross', ep, 'deny-any:' + rule, True, flags_for(ep, True), 'adminA', {rule: '!'})
        _ = fam_admin


# ----------------------------------------------------------------------------- stream guards
def _row(R, kind, id_):
    from mistral import context as auth_context
    from mistral.db.v2 import api as db_api
    from harness import rest_driver as rd
    R._ctx(rd.PROJ_A)
    try:
        return _row1(db_api, kind, id_)
    finally:
        auth_context.set_ctx(None)


def _row1(db_api, kind, id_):
    with db_api.transaction():
        try:
            if kind == 'wf':
                o = db_api.load_workflow_execution(id_)
            elif kind == 'task':
                o = db_api.load_task_execution(id_)
            else:
                o = db_api.load_action_execution(id_)
        except Exception:
            return None
        if o is None:
            return None
        d = {'state': o.state, 'description': getattr(o, 'description', None)}
        if kind == 'wf':
            d['env'] = dict((o.params or {}).get('env') or {})
        return d


EXEC_ERR = [
    (404, 'not found', 'notFound'),
    (400, 'is not provided for update', 'nothingToUpdate'),
    (400, 'must be updated separately from state', 'descWithState'),
    (400, 'env can only be updated when', 'envWithState'),
    (403, 'Updating env to workflow execution is only permitted', 'envNotAllowed'),
    (400, 'Cannot change state to', 'badState'),
]
TASK_ERR = [
    (404, 'not found', 'notFound'),
    (400, 'Task name does not match', 'nameMismatch'),
    (400, 'Workflow name does not match', 'wfNameMismatch'),
    (400, 'Only updating task to RUNNING or SKIPPED is supported', 'invalidState'),
    (400, 'must be in ERROR for rerun', 'notInError'),
    (400, 'Reset field is mandatory', 'resetMandatory'),
    (400, 'Only with-items task has the option to not reset', 'resetRequired'),
]


def _err(status, body, table):
    msg = body.get('faultstring', '') if isinstance(body, dict) else str(body)
    for st, frag, name in table:
        if status == st and frag.lower() in msg.lower():
            return name
    return 'http%d:%s' % (status, msg[:60])


def stream_guards(ctx, run, thorough):
    from harness import rest_driver as rd
    R, drv = run.R, run.drv
    fx = R.fx
    R.restore_rules()

    def finish():
        if R.db_hash() != R.baseline:
            R.restore()

    # ---------------- PUT /v2/executions/{id}
    cases = []
    for cur in WF_STATES + ('<absent>',):
        for st in ('',) + ALL_STATES + ('BOGUS', 'running'):
            for desc in (None, 'new description'):
                for env in (None, {'k': 1}):
                    cases.append((cur, st, desc, env))
    margs = [{'exists': cur != '<absent>', 'cur': cur if cur != '<absent>' else '', 'state': st,
              'desc': desc is not None, 'env': env is not None} for cur, st, desc, env in cases]
    mouts = drv.batch('rest.execPut', margs)
    for (cur, st, desc, env), mo in zip(cases, mouts):
        id_ = fx['wfex_A_' + cur] if cur != '<absent>' else rd.ABSENT
        body = {}
        if st:
            body['state'] = st
        if desc is not None:
            body['description'] = desc
        if env is not None:
            body['params'] = {'env': env}
        before_row = _row(R, 'wf', id_)
        h0 = R.db_hash()
        R.engine.real_stop = st not in FINAL      # an undocumented "stop" goes to the real engine
        status, rb, calls = R.request('PUT', '/v2/executions/' + id_, 'memberA', body=body)
        R.engine.real_stop = False
        after_row = _row(R, 'wf', id_)
        changed = R.db_hash() != h0
        if 200 <= status < 300:
            eng = calls[0] if calls else None
            impl = {'setDescription': bool(before_row and after_row['description'] != before_row['description']),
                    'updateEnv': bool(before_row and after_row['env'] != before_row['env']),
                    'engine': eng}
            if len(calls) > 1:
                impl['engine'] = calls
        else:
            impl = {'err': _err(status, rb, EXEC_ERR)}
            if changed or calls:
                impl['effect_on_error'] = {'changed': changed, 'engine': calls}
        key = ['execPut', cur, st, desc is not None, env is not None]
        ctx.evaluated('guards', key, nontrivial=bool(st) or desc is not None)
        ctx.count('guards', 'execPut:' + (impl.get('err') or 'ok'))
        if impl != mo:
            ctx.disagree('guards', {'op': 'PUT /v2/executions', 'current': cur, 'body': body}, mo, impl)
        # ---- monitor
        rep = {'kind': 'guard', 'op': 'execPut', 'current': cur, 'body': body, 'status': status, 'engine': calls}
        state_moved = bool(before_row and after_row and after_row['state'] != before_row['state'])
        if st and st not in DOC_MOVES_EXEC:
            # not a documented move: must not change anything (a forwarded stop is run on the real engine)
            if changed or state_moved or any(c[0] in ('pause_workflow', 'resume_workflow') for c in calls) or \
                    any(c[0] == 'stop_workflow' and c[1] in FINAL for c in calls):
                ctx.violation('execution PUT to undocumented state %r had an effect (status %d, engine %s)' % (
                    st, status, calls), rep, {'kind': 'exec-put-undocumented-move', 'state': st})
        if st and desc is not None:
            if 200 <= status < 300 or changed or calls:
                ctx.violation('execution PUT with description together with state %r was not refused cleanly '
                              '(status %d, changed=%s, engine %s)' % (st, status, changed, calls), rep,
                              {'kind': 'exec-put-description-with-state'})
        if not (200 <= status < 300) and (changed or calls):
            ctx.violation('execution PUT refused with %d but had an effect (changed=%s, engine %s)' % (
                status, changed, calls), rep, {'kind': 'exec-put-error-with-effect'})
        for c in calls:
            want = {'pause_workflow': ('PAUSED',), 'resume_workflow': ('RUNNING',)}.get(c[0])
            if want and st not in want:
                ctx.violation('execution PUT state %r reached engine.%s' % (st, c[0]), rep,
                              {'kind': 'exec-put-wrong-engine-call'})
        finish()

    # ---------------- DELETE /v2/executions/{id}
    # `force` is a types.boolean: the text is parsed (bool_from_string, strict), not bool(text)
    forces = (None, '', 'true', 'false', '0', 'abc') + (
        ('True', 'False', '1', 'no', 'off', ' TRUE ', 'yes', 'n', 'FALSE', 'tru', '2', 't', 'f') if thorough else ())
    cases = [(cur, force) for cur in WF_STATES + ('<absent>',) for force in forces]
    mouts = drv.batch('rest.execDeleteReq', [{'exists': cur != '<absent>', 'cur': cur if cur != '<absent>' else '',
                                              'force': force} for cur, force in cases])
    for (cur, force), mo in zip(cases, mouts):
        id_ = fx['wfex_A_' + cur] if cur != '<absent>' else rd.ABSENT
        status, rb, calls = R.request('DELETE', '/v2/executions/' + id_, 'memberA',
                                      params={'force': force} if force is not None else None)
        gone = _row(R, 'wf', id_) is None
        impl = {204: 'deleted', 404: 'notFound', 403: 'notAllowed', 400: 'badRequest'}.get(status, 'http%d' % status)
        if (impl == 'deleted') != (gone and cur != '<absent>'):
            impl += ':row-%s' % ('gone' if gone else 'kept')
        ctx.evaluated('guards', ['execDelete', cur, force], nontrivial=cur not in FINAL)
        ctx.count('guards', 'execDelete:' + impl)
        if impl != mo:
            ctx.disagree('guards', {'op': 'DELETE /v2/executions', 'current': cur, 'force': force}, mo, impl)
        if cur != '<absent>' and gone and (force or '').strip().lower() not in ('true', '1', 'yes', 'on', 't', 'y') \
                and cur not in FINAL:
            ctx.violation('unfinished execution (%s) deleted without force (force=%r)' % (cur, force),
                          {'kind': 'guard', 'op': 'execDelete', 'current': cur, 'force': force, 'status': status},
                          {'kind': 'exec-delete-unfinished-without-force',
                           'force': 'absent' if force is None else ('empty' if force == '' else
                                                                    'non-empty text other than true/1/yes')})
        finish()

    # ---------------- PUT /v2/tasks/{id}
    cases = []
    for cur in ALL_STATES:
        for req in ('',) + ALL_STATES + ('BOGUS',):
            for reset in (None, False, True):
                for wi in (False, True):
                    cases.append((cur, req, reset, wi, None, None, None))
    for req in (('RUNNING', 'SKIPPED', 'SUCCESS') if not thorough else ('',) + ALL_STATES):
        for cur in (('ERROR', 'SUCCESS') if not thorough else ALL_STATES):
            for name in (None, 't1', 'other'):
                for wfn in (None, 'wf_A_private', 'other_wf'):
                    for env in (None, '{"k": 1}'):
                        for reset in (None, True):
                            if (name, wfn, env) != (None, None, None):
                                cases.append((cur, req, reset, False, name, wfn, env))
    cases.append(('<absent>', 'RUNNING', True, False, None, None, None))
    if not thorough:
        head = [c for c in cases if c[0] in ('ERROR', 'SUCCESS', 'RUNNING', '<absent>') or c[1] in ('RUNNING', 'SKIPPED')]
        rest = [c for c in cases if c not in head]
        cases = head + ctx.rng.sample(rest, min(len(rest), 150))
    margs = [{'exists': cur != '<absent>', 'nameOk': name in (None, 't1'), 'wfNameOk': wfn in (None, 'wf_A_private'),
              'cur': cur if cur != '<absent>' else '', 'req': req, 'reset': reset, 'withItems': wi,
              'env': env is not None} for cur, req, reset, wi, name, wfn, env in cases]
    mouts = drv.batch('rest.taskPut', margs)
    for (cur, req, reset, wi, name, wfn, env), mo in zip(cases, mouts):
        id_ = fx['task_A_ERROR_%s%s' % (cur, '_wi' if wi else '')] if cur != '<absent>' else rd.ABSENT
        body = {}
        if req:
            body['state'] = req
        if reset is not None:
            body['reset'] = reset
        if name:
            body['name'] = name
        if wfn:
            body['workflow_name'] = wfn
        if env:
            body['env'] = env
        h0 = R.db_hash()
        status, rb, calls = R.request('PUT', '/v2/tasks/' + id_, 'memberA', body=body)
        changed = R.db_hash() != h0
        if 200 <= status < 300:
            c = calls[0] if calls else None
            impl = {'rerun': [bool(c[1]), bool(c[2]), bool(c[3])]} if c and c[0] == 'rerun_workflow' and len(calls) == 1 \
                else {'calls': calls}
        else:
            impl = {'err': _err(status, rb, TASK_ERR)}
            if changed or calls:
                impl['effect_on_error'] = {'changed': changed, 'engine': calls}
        ctx.evaluated('guards', ['taskPut', cur, req, reset, wi, name, wfn, env is not None],
                      nontrivial=req in ('RUNNING', 'SKIPPED') or cur == 'ERROR')
        ctx.count('guards', 'taskPut:' + (impl.get('err') or 'ok'))
        if impl != mo:
            ctx.disagree('guards', {'op': 'PUT /v2/tasks', 'current': cur, 'with_items': wi, 'body': body}, mo, impl)
        if calls and not (cur == 'ERROR' and req in ('RUNNING', 'SKIPPED')):
            ctx.violation('task PUT from %s to %r reached the engine: %s' % (cur, req, calls),
                          {'kind': 'guard', 'op': 'taskPut', 'current': cur, 'with_items': wi, 'body': body,
                           'status': status, 'engine': calls},
                          {'kind': 'task-put-undocumented-move', 'from': cur, 'to': req})
        if changed:
            ctx.violation('task PUT changed the database directly', {'kind': 'guard', 'op': 'taskPut', 'current': cur,
                                                                     'with_items': wi, 'body': body},
                          {'kind': 'task-put-db-write'})
        finish()

    # ---------------- PUT /v2/action_executions/{id}
    cases = [(cur, st, out) for cur in WF_STATES for st in ('',) + ALL_STATES + ('BOGUS',)
             for out in (None, '{"r": 2}')]
    if not thorough:
        cases = [c for c in cases if c[0] in ('RUNNING', 'SUCCESS')] + \
            ctx.rng.sample([c for c in cases if c[0] not in ('RUNNING', 'SUCCESS')], 40)
    mouts = drv.batch('rest.actionPut', [{'state': st, 'hasOutput': out is not None} for cur, st, out in cases])
    for (cur, st, out), mo in zip(cases, mouts):
        id_ = fx['actex_adhoc_A_' + cur]
        body = {}
        if st:
            body['state'] = st
        if out is not None:
            body['output'] = out
        h0 = R.db_hash()
        status, rb, calls = R.request('PUT', '/v2/action_executions/' + id_, 'memberA', body=body)
        changed = R.db_hash() != h0
        if 200 <= status < 300:
            cs = []
            for c in calls:
                if c[0] == 'on_action_complete':
                    if c[1] == 'error':
                        cs.append(['on_action_complete', 'error', c[2] == 'Unknown error'])
                    else:
                        cs.append(['on_action_complete', c[1]])
                else:
                    cs.append(c)
            impl = {'calls': cs}
        elif status == 400 and 'Expected one of' in json.dumps(rb):
            impl = {'err': 'unsupported'}
        else:
            impl = {'err': 'crash' if status >= 500 else 'http%d' % status}
        if not (200 <= status < 300) and (calls or changed):
            impl['effect_on_error'] = {'changed': changed, 'engine': calls}
        ctx.evaluated('guards', ['actionPut', cur, st, out is not None], nontrivial=bool(st))
        ctx.count('guards', 'actionPut:' + (impl.get('err') or 'ok'))
        if impl != mo:
            ctx.disagree('guards', {'op': 'PUT /v2/action_executions', 'current': cur, 'body': body}, mo, impl)
        if calls and st not in DOC_MOVES_ACTION:
            ctx.violation('action execution PUT to unsupported state %r reached the engine: %s' % (st, calls),
                          {'kind': 'guard', 'op': 'actionPut', 'current': cur, 'body': body, 'status': status},
                          {'kind': 'action-put-unsupported-state', 'state': st})
        if changed:
            ctx.violation('action execution PUT changed the database directly',
                          {'kind': 'guard', 'op': 'actionPut', 'current': cur, 'body': body},
                          {'kind': 'action-put-db-write'})
        finish()

    # ---------------- DELETE /v2/action_executions/{id}
    cases = [(al, cur) for al in (False, True) for cur in WF_STATES + ('<task>', '<absent>')]
    margs = [{'allowed': al, 'exists': cur != '<absent>', 'hasTask': cur == '<task>',
              'cur': 'SUCCESS' if cur == '<task>' else ('' if cur == '<absent>' else cur)} for al, cur in cases]
    mouts = drv.batch('rest.actionDelete', margs)
    for (al, cur), mo in zip(cases, mouts):
        id_ = rd.ABSENT if cur == '<absent>' else (fx['actex_task_A'] if cur == '<task>' else fx['actex_adhoc_A_' + cur])
        R.CONF.set_override('allow_action_execution_deletion', al, group='api')
        try:
            status, rb, calls = R.request('DELETE', '/v2/action_executions/' + id_, 'memberA')
        finally:
            R.CONF.clear_override('allow_action_execution_deletion', group='api')
        gone = _row(R, 'act', id_) is None
        impl = {204: 'deleted', 404: 'notFound', 403: 'notAllowed'}.get(status, 'http%d' % status)
        if (impl == 'deleted') != (gone and cur != '<absent>'):
            impl += ':row-%s' % ('gone' if gone else 'kept')
        ctx.evaluated('guards', ['actionDelete', al, cur], nontrivial=True)
        ctx.count('guards', 'actionDelete:' + impl)
        if impl != mo:
            ctx.disagree('guards', {'op': 'DELETE /v2/action_executions', 'allowed': al, 'current': cur}, mo, impl)
        if gone and cur not in ('<absent>',) and (not al or cur == '<task>' or cur not in FINAL):
            ctx.violation('action execution (%s) deleted although not permitted' % cur,
                          {'kind': 'guard', 'op': 'actionDelete', 'allowed': al, 'current': cur},
                          {'kind': 'action-delete-not-permitted'})
        finish()


# ----------------------------------------------------------------------------- corpus (regressions, run first)
def run_corpus(ctx, run):
    """corpus/C16/*.json: witnesses of repaired defects; the monitors must stay silent on them."""
    import glob
    import os
    from harness import rest_driver as rd
    from vlib import core
    for path in sorted(glob.glob(os.path.join(core.VERIF, 'corpus', 'C16', '*.json'))):
        with open(path) as f:
            w = json.load(f)
        ctx.count('corpus', w['kind'])
        if w['kind'] == 'all-projects':
            ep = [e for e in run.eps if [e['cls'], e['method'], e['path']] == w['endpoint']]
            if not ep:
                ctx.disagree('corpus', w, 'endpoint of a regression witness', 'no longer generated')
                continue
            all_projects_cases(ctx, run, ep[0], documented_rule(ep[0]))
        elif w['kind'] == 'exec-delete-force':
            R = run.R
            id_ = R.fx['wfex_A_' + w['current']]
            status, rb, calls = R.request('DELETE', '/v2/executions/' + id_, 'memberA', params={'force': w['force']})
            gone = _row(R, 'wf', id_) is None
            ctx.evaluated('corpus', [w['kind'], w['current'], w['force']], nontrivial=True)
            if gone:
                ctx.violation('unfinished execution (%s) deleted without force (force=%r)' % (w['current'], w['force']),
                              {'kind': 'guard', 'op': 'execDelete', 'current': w['current'], 'force': w['force'],
                               'status': status},
                              {'kind': 'exec-delete-unfinished-without-force',
                               'force': 'non-empty text other than true/1/yes'})
            if R.db_hash() != R.baseline:
                R.restore()
        else:
            ctx.disagree('corpus', w, 'known witness kind', 'unknown')


# ----------------------------------------------------------------------------- entry points
def correspond(ctx):
    try:
        run = Runner(ctx)
    except Exception as e:
        ctx.broken_tie('correspondence', 'rest', 'cannot set up the REST harness / read the endpoint table: %s: %s' % (
            type(e).__name__, e))
        return
    run_corpus(ctx, run)
    stream_rest(ctx, run)
    stream_policy(ctx, run, ctx.n(150, 4000))
    if ctx.thorough():
        stream_cross(ctx, run)
    stream_guards(ctx, run, ctx.thorough())
    # EVIDENCE.schema: `exhaustive` is a boolean; the per-stream detail goes to `exhaustive_streams`
    ctx.cov['exhaustive'] = bool(ctx.thorough())
    ctx.cov['exhaustive_streams'] = {'rest': True, 'guards': ctx.thorough()}


def search(ctx):
    """Failing-input search after a broken obligation / disagreement.  The monitors in correspond() already
    evaluated the statement on every generated endpoint; widen: every endpoint with *every* registered rule of
    its documented family denied one at a time, the documented rule denied for both actors, and the full guard
    cross product."""
    try:
        run = Runner(ctx)
    except Exception:
        return
    pv = PolicyView(run.rules)
    for ep in run.eps:
        k = (ep['path'], ep['method'])
        if k not in run.T or k in NOT_EXERCISED:
            continue
        doc = documented_rule(ep)
        if not doc:
            continue
        has_item = 'absent' in run.T[k](True, {})
        for actor in ('memberA', 'adminA'):
            for p in ((True, False) if has_item else (True,)):
                run.case('search', ep, 'deny-documented:' + doc, p, flags_for(ep, False), actor, {doc: '!'},
                         monitor_denied_rule=doc)
        if 'all_projects' in ep['params']:
            all_projects_cases(ctx, run, ep, doc)
        if ep['http'] in ('POST', 'PUT') and 'public_probe' in run.T[k](True, {'scopePublic': True}):
            publicize_cases(ctx, run, ep, doc)
    # disagreements found during the search are part of the search, not new broken ties
    if not ctx.thorough():
        stream_guards(ctx, run, True)


def replay(ctx, rep):
    r = rep['replay']
    run = Runner(ctx)
    if r.get('kind') == 'guard':
        # re-run the guard streams; the monitors re-raise the violation if it is still there
        stream_guards(ctx, run, True)
        return
    ep = None
    for e in run.eps:
        if [e['cls'], e['method'], e['path']] == r['endpoint']:
            ep = e
    if ep is None:
        print('replay: endpoint %s no longer exists' % (r['endpoint'],))
        return
    doc = documented_rule(ep)
    if r.get('kind') == 'all-projects' or r.get('kind') == 'all-projects-default':
        all_projects_cases(ctx, run, ep, doc)
    elif r.get('kind') == 'publicize':
        publicize_cases(ctx, run, ep, doc)
    else:
        rule = rep.get('signature', {}).get('rule') or doc
        obs = run.case('replay', ep, r.get('scenario', 'replay'), r.get('present', True), r.get('flags', {}),
                       r.get('actor', 'memberA'), r.get('overrides', {}), monitor_denied_rule=rule)
        print('replay: %s -> status %s changed=%s engine=%s' % (r.get('request'), obs and obs['status'],
                                                                obs and obs['changed'], obs and obs['engine']))
