"""C15 — tenants are isolated.

Tie A: translate/db_access.py (every db-api function as flags, `_secure_query` /
check_db_obj_access / _set_project_id as clause flags, reachability, insecure call sites,
AST hashes of the hand-modelled member code) -> Gen/DbAccess.lean; theorems in
Props/C15.lean are re-checked against it.
Tie B: stream `access` (every db-api function of a tenant model, called through the real
facade mistral.db.v2.api under auth_enable=True contexts, vs Model.Access.exec with the
generated flags), `members` (resource-member functions vs the hand model), `rest`
(MembersController + definition controllers through the pecan test app), `expr`
(std_functions under foreign contexts), `execute` (service layer).
Monitor: the statement read on snapshots of all tenant tables before/after each call.
"""
import itertools
import json
import os

GEN = ['db_access']
MANIFEST = {
    'technique': 'Lean 4 theorems over a flag-parameterised model of the db-api tenancy layer; the flags '
                 'of every db-api function are regenerated from the source by an abstract interpreter; '
                 'exhaustive differential cross-product on the real db-api over sqlite',
    'text': 'Theorems (all databases, actors, arguments; over the GENERATED table of db-api functions): the '
            'translated _secure_query filter is exactly "own or public or accepted share"; every user-reachable '
            'read/list/count returns only visible rows for a non-admin; no reachable mutator except the named '
            'ones changes a row that is not visible; mutators with the owner check change only own rows '
            '(write_protection_partial), the unguarded ones are named exactly (13 known findings); created rows '
            'belong to the caller; accepted membership => readable, pending/rejected => not; only the member '
            'changes a status, only the creator deletes a share; re-sharing by an accepted member is possible '
            '(share_only_owner_full_fails, finding). Correspondence: every generated function x 7 actor '
            'relations x every row of a fixed population (2 scopes, name collisions, system rows, 3 membership '
            'states) on the real db-api, plus REST members API, expression functions, trigger services.',
    'note': 'SQLAlchemy/sqlite semantics, namespaces (fixed to ""), pagination/sorting and the non-tenant tables '
            'are not modelled; user reachability is the syntactic use from api/, services/, std_functions; the '
            'member functions and MembersController.post are hand-modelled with their AST hash pinned; K (engine '
            'follow-ups under the heartbeat checker context) only at the security.create_context level',
}
RULE = ('full cross product: every db-api function whose model is a tenant table (from the generated table) x '
        'actor relation (owner, other, member pending/accepted/rejected, third, admin) x target row of the '
        'population (private/public, shared, colliding names, system) x key form (id, name) x argument variant '
        '(plain, scope change, explicit foreign project_id, insecure=True); a case is non-trivial when the actor '
        'is not the owner of the addressed row (distinct = distinct (function, actor, row, key, variant)); '
        'the quick tier runs the whole product')
TRUSTED = [
    'translate/db_access.py: abstract interpreter over db/v2/sqlalchemy/api.py (its flags are exercised '
    'function by function by the `access` stream)',
    'SQLAlchemy / oslo.db / sqlite query semantics; namespaces fixed to the default; fields/pagination ignored',
    'reachability = syntactic use of mistral.db.v2.api attributes from mistral/api, mistral/services, '
    'expressions/std_functions.py, utils/rest_utils.py',
    'resource-member functions and MembersController.post are modelled by hand; their AST hashes are pinned '
    'by theorem hand_modelled_code_is_the_reviewed_code',
    'pecan test app with AuthHook.before patched and MistralContext.from_environ supplying the actor',
]
ASSUMPTIONS = ['auth_enable=True and a context is always set (has_ctx() true)']

# functions of tenant models the generic caller does not drive, with the reason (explicit, reported)
SKIP = {
    'get_expired_executions': 'system-internal (expiration policy); time/limit arguments',
    'get_superfluous_executions': 'system-internal (expiration policy)',
    'get_running_expired_sync_action_executions': 'system-internal (heartbeat checker)',
    'get_next_cron_triggers': 'system-internal (cron processing)',
    'get_completed_task_executions_as_batches': 'generator; engine-internal, not user reachable',
    'update_workflow_execution_state': 'engine-internal CAS (cur_state/state arguments)',
    'update_task_execution_state': 'engine-internal CAS',
    'update_action_execution_state': 'engine-internal CAS (repo fix fdb9cc00; only engine/actions.py calls it, '
                                     'same (id, cur_state, state) form as the two above)',
    'delete_workflow_execution_recurse': 'mysql cascade fallback helper of delete_workflow_execution',
    'update_action_execution_heartbeat': 'executor heartbeat (id only, no values)',
}
READ_KINDS = ('Mistral.Access.Kind.get', 'Mistral.Access.Kind.load', 'Mistral.Access.Kind.list',
              'Mistral.Access.Kind.count')


def short(s):
    return s.rsplit('.', 1)[-1]


def visible_gt(base, actor_ord, r):
    """the statement's visibility, computed from the snapshot only"""
    from harness import access
    if r['p'] == actor_ord or r['s'] == 'public':
        return True
    tag = access.SHARE_TAG.get(r['t'])
    if tag:
        for m in base['members']:
            if m['res'] == r['id'] and m['rt'] == tag and m['member'] == actor_ord \
                    and m['status'] == 'accepted':
                return True
    return False


def relation(w, case):
    """actor relation to the addressed row"""
    from harness import access
    actor, T = case['actor'], case['T']
    if actor == access.ADMIN:
        return 'admin'
    if T is None:
        return access.REL[actor] if actor != 'pA' else 'a project'
    a = access.pord(actor)
    if T['p'] == a:
        return 'owner'
    for m in w.base['members']:
        if m['res'] == T['id'] and m['member'] == a and m['rt'] == access.SHARE_TAG.get(T['t']):
            return 'member-' + m['status']
    return 'other project'


def canon_db(db):
    ids = {r['id'] for r in db['resources']}
    return {'resources': sorted(db['resources'], key=lambda r: r['id']),
            'members': sorted([m for m in db['members'] if m['res'] in ids],
                              key=lambda m: (m['res'], m['rt'], m['member'], m['owner'], m['status']))}


def diff_rows(before, after):
    b = {r['id']: r for r in before['resources']}
    a = {r['id']: r for r in after['resources']}
    changed = [i for i in b if i in a and a[i] != b[i]]
    removed = [i for i in b if i not in a]
    added = [i for i in a if i not in b]
    return changed, removed, added


def data_value(model, k):
    from harness import access
    col = access.TYPES[model][2]
    if col == 'workflow_params':
        return col, {'d': 'd%d' % k}
    return col, 'd%d' % k


def gen_cases(w, fns, ctx):
    """the cross product; yields dicts"""
    from harness import access
    for f in fns:
        model, kind, key = f['model'], short(f['kind']), short(f['key'])
        if model not in access.TYPES or not f['known']:
            continue
        if f['name'] in SKIP:
            ctx.count('access', 'skipped:' + f['name'])
            continue
        targets = w.targets(model)
        has_ins = short(f['read']) in ('adminOrParam', 'param')
        for actor in access.PROJECTS:
            if kind in ('get', 'load', 'update', 'delete', 'createOrUpdate') and key in ('id', 'name', 'ident'):
                for T in targets:
                    if kind == 'createOrUpdate' and actor == access.ADMIN and T['n'] in ('col', 'colp'):
                        continue    # probe and update look up differently for an admin (see docs)
                    forms = [k for k in ('id', 'name') if key in (k, 'ident')]
                    for form in forms:
                        variants = ['plain']
                        if kind in ('update', 'createOrUpdate'):
                            # an explicit project_id on a colliding name trips the unique
                            # (name, project) constraint, which the model does not have
                            variants = ['plain'] + (['proj'] if T['n'] not in ('col', 'colp') else []) \
                                + (['pub'] if T['s'] == 'private' else [])
                        for v in variants:
                            for ins in ([None, True] if has_ins and v == 'plain' else [None]):
                                yield {'fn': f, 'actor': actor, 'T': T, 'form': form, 'variant': v, 'ins': ins}
            elif kind in ('list', 'count', 'deleteAll') and key in ('filters', 'none'):
                names = sorted({t['n'] for t in targets})
                fl = [{'name': n} for n in names]
                fl += [{'name': n, 'project_id': p} for n in ('col', 'colp', 'a_priv', 'a_pub')
                       for p in ('pA', 'pO')]
                if kind != 'deleteAll':
                    fl += [{}] + [{'project_id': p} for p in ('pA', 'pO', 'pMa', 'pADM')]
                    fl += [{'scope': s} for s in ('private', 'public')]
                    fl += [{'scope': 'private', 'project_id': 'pA'}]
                for flt in fl:
                    for ins in ([None, True] if has_ins else [None]):
                        yield {'fn': f, 'actor': actor, 'T': None, 'form': 'filters', 'variant': 'plain',
                               'ins': ins, 'filters': flt}
            elif kind == 'create':
                for v in ('plain', 'proj', 'pub'):
                    yield {'fn': f, 'actor': actor, 'T': None, 'form': 'create', 'variant': v, 'ins': None}
            else:
                ctx.count('access', 'not-driven:%s(%s/%s)' % (f['name'], kind, key))
                break


def make_call(w, case):
    """-> (args, kwargs, model_args) or None"""
    from harness import access
    f, T, form, v = case['fn'], case['T'], case['form'], case['variant']
    model = f['model']
    kind = short(f['kind'])
    margs = {'insecure': bool(case['ins'])}
    values = None
    key = None
    filters = None
    if form in ('id', 'name'):
        key = ('id', w.rev[T['id']]) if form == 'id' else ('name', T['n'])
        margs['key'] = {'k': 'id', 'v': T['id']} if form == 'id' else {'k': 'name', 'v': T['n']}
    elif form == 'filters':
        filters = dict(case['filters'])
        margs['key'] = {'k': 'filters', 'project': access.pord(filters['project_id']) if 'project_id' in filters else None,
                        'scope': filters.get('scope'), 'name': filters.get('name')}
    else:
        margs['key'] = {'k': 'filters'}
    if kind in ('update', 'createOrUpdate', 'create'):
        col, val = data_value(model, 7)
        if kind == 'update':
            values = {col: val}
            if model == 'WorkflowDefinition':
                values['scope'] = T['s']
                margs['newScope'] = T['s']
        else:
            nm = T['n'] if (T is not None and form == 'name') else 'brandnew'
            values = access.TYPES[model][1](nm, T['s'] if T is not None else 'private',
                                            dict(w.refs.get(case['actor'], w.refs['pA']), seq=97))
            values[col] = val
            margs['newScope'] = values['scope']
            margs['newName'] = nm
            if kind == 'createOrUpdate' and model in ('CronTrigger', 'EventTrigger', 'DynamicActionDefinition',
                                                      'TaskExecution', 'ActionExecution', 'WorkflowExecution'):
                # dependent rows must reference rows of the caller: use pA's refs only when the
                # caller owns none (the FK is not what is under test)
                pass
        margs['newData'] = 7
        margs['newId'] = w.n_base + 1
        if v == 'proj':
            values['project_id'] = 'pC' if case['actor'] != 'pC' else 'pO'
            margs['givenProject'] = access.pord(values['project_id'])
        if v == 'pub':
            values['scope'] = 'public'
            margs['newScope'] = 'public'
    call = access.build_call(f['name'], key, values=values, insecure=case['ins'], filters=filters)
    if call is None:
        return None
    return call[0], call[1], margs


def outcome_of(obs, kind):
    k = obs['k']
    if k in ('notFound', 'notAllowed', 'systemProtected', 'nothing', 'exc'):
        return k
    return 'ok'


def compare(case, obs, after, mo, w):
    """model output vs implementation; returns None if they agree else a description"""
    kind = short(case['fn']['kind'])
    mk = mo['outcome']['k']
    ik = obs['k']
    if ik == 'exc':
        return 'implementation raised %s: %s' % (obs['type'], obs['msg'])
    if kind in ('get', 'load'):
        if ik == 'row':
            return None if (mk == 'rows' and obs['id'] in mo['outcome']['ids']) else 'row not among model candidates'
        return None if ik == mk else 'outcome'
    if kind == 'list':
        return None if (ik == 'rows' and mk == 'rows' and sorted(mo['outcome']['ids']) == obs['ids']) else 'row set'
    if kind == 'count':
        return None if (ik == 'count' and mk == 'count' and mo['outcome']['n'] == obs['n']) else 'count'
    # mutators
    if ik in ('notFound', 'notAllowed', 'systemProtected'):
        if ik != mk:
            return 'outcome'
    elif mk == 'created':
        if ik != 'row' or obs['project'] != mo['outcome']['project']:
            return 'created row project'
    elif mk not in ('done', 'nothing'):
        return 'outcome'
    if after is not None and canon_db(after) != canon_db(mo['db']):
        return 'database after the call'
    return None


def monitor(ctx, case, obs, after, w):
    """the statement, read on the real behaviour (no model involved)"""
    from harness import access
    f = case['fn']
    actor = case['actor']
    if actor == access.ADMIN or case['ins']:
        return
    a = access.pord(actor)
    base = w.base
    byid = {r['id']: r for r in base['resources']}
    reach = f['reachable']
    hits = []
    ids = []
    if obs['k'] == 'row':
        ids = [obs['id']]
    elif obs['k'] == 'rows':
        ids = obs['ids']
    kind = short(f['kind'])
    if kind in ('get', 'load', 'list'):
        for i in ids:
            r = byid.get(i)
            if r is not None and not visible_gt(base, a, r):
                hits.append(('db-api-read-leak', 'returns a row of project %d that is not visible to project %d'
                             % (r['p'], a)))
                break
    # "public resources and workflows shared through an accepted membership are readable ... by others"
    T = case['T']
    if kind in ('get', 'load') and case['form'] == 'id' and T is not None and visible_gt(base, a, T) \
            and not (obs['k'] == 'row' and obs['id'] == T['id']):
        hits.append(('visible-row-not-readable',
                     'a row that is the caller\'s own, public or shared with it is not returned by id'))
    if kind == 'count' and obs['k'] == 'count' and case.get('filters'):
        flt = case['filters']
        match = [r for r in base['resources'] if r['t'] == f['model']
                 and all({'name': r['n'], 'project_id': r['p'], 'scope': r['s']}[k] ==
                         (access.pord(v) if k == 'project_id' else v) for k, v in flt.items())]
        vis = [r for r in match if visible_gt(base, a, r)]
        if obs['n'] > len(vis):
            hits.append(('db-api-count-leak', 'counts rows that are not visible'))
    if after is not None:
        changed, removed, added = diff_rows(base, after)
        for i in changed + removed:
            r = byid[i]
            if r['p'] != a:
                if visible_gt(base, a, r):
                    hits.append(('db-api-no-owner-check',
                                 'a non-owner changes/deletes a public or shared row of another project'))
                else:
                    hits.append(('db-api-private-foreign-write',
                                 'changes/deletes a private row of another project'))
                break
        aft = {r['id']: r for r in after['resources']}
        for i in added:
            if aft[i]['p'] != a:
                hits.append(('created-row-not-owned', 'new row belongs to project %d, caller is %d' % (aft[i]['p'], a)))
                break
    for kindv, text in hits:
        if not reach:
            ctx.count('access', 'monitor-unreachable:%s:%s' % (kindv, f['name']))
            continue
        ctx.violation('%s(%s) as %s: %s' % (f['name'], case['form'], relation(w, case), text),
                      {'stream': 'access', 'fn': f['name'], 'actor': actor,
                       'target': case['T'], 'form': case['form'], 'variant': case['variant'],
                       'filters': case.get('filters'), 'observed': obs},
                      {'kind': kindv, 'function': f['name']})


def stream_access(ctx, w):
    from harness import access
    drv = ctx.driver()
    fns = drv.call('access.fns', {})
    if not isinstance(fns, list):
        ctx.broken_tie('driver', 'access.fns', 'driver has no access.fns: %r' % (fns,))
        return
    tenant = [f for f in fns if f['model'] in access.TYPES]
    uncallable = set()
    runs = []
    for case in gen_cases(w, tenant, ctx):
        mc = make_call(w, case)
        if mc is None:
            if case['fn']['name'] not in uncallable:
                uncallable.add(case['fn']['name'])
                ctx.broken_tie('harness', case['fn']['name'],
                               'generated table lists %s but the harness cannot call it' % case['fn']['name'])
            continue
        args, kwargs, margs = mc
        kind = short(case['fn']['kind'])
        obs, after = w.run_case(case['actor'], case['fn']['name'], args, kwargs,
                                after=(kind not in ('get', 'load', 'list', 'count')) or ctx.thorough())
        if after is not None:
            changed, removed, added = diff_rows(w.base, after)
            touched = changed + removed
            if len(touched) == 1:
                margs['pick'] = touched[0]
        if obs['k'] == 'row' and 'pick' not in margs:
            margs['pick'] = obs['id']
        monitor(ctx, case, obs, after, w)
        runs.append((case, obs, after, margs))
    base = w.base
    outs = drv.batch('access.exec', [
        {'fn': c['fn']['name'], 'db': base,
         'actor': {'project': access.pord(c['actor']), 'admin': c['actor'] == access.ADMIN}, 'args': m}
        for c, _, _, m in runs])
    for (case, obs, after, margs), mo in zip(runs, outs):
        f = case['fn']
        T = case['T']
        nontrivial = (T is not None and T['p'] != access.pord(case['actor'])) or \
                     (T is None and case['actor'] != 'pA')
        key = [f['name'], case['actor'], T['id'] if T else case.get('filters'), case['form'],
               case['variant'], bool(case['ins'])]
        ctx.evaluated('access', key, nontrivial=nontrivial)
        ctx.count('access', 'kind:' + short(f['kind']))
        ctx.count('access', 'relation:' + relation(w, case))
        ctx.count('access', 'impl:' + obs['k'])
        if not isinstance(mo, dict) or 'outcome' not in mo:
            ctx.disagree('access', {'fn': f['name'], 'actor': case['actor']}, mo, obs)
            continue
        d = compare(case, obs, after, mo, w)
        if d is not None:
            ctx.count('access', 'disagree:%s:%s' % (f['name'], d[:40]))
            ctx.disagree('access', {'fn': f['name'], 'actor': case['actor'], 'target': T,
                                    'form': case['form'], 'variant': case['variant'], 'ins': case['ins'],
                                    'filters': case.get('filters'), 'what': d},
                         mo['outcome'], obs)
        elif nontrivial and ctx.rng.random() < 0.002:
            ctx.sample({'fn': f['name'], 'actor': access.REL[case['actor']], 'target': T and T['n'],
                        'impl': obs['k'], 'model': mo['outcome']['k']})


def run_corpus(ctx, w):
    """regressions first: the witnesses of the theorems that were false before the fixes"""
    import glob
    from harness import access
    from vlib import core
    fns = {f['name']: f for f in ctx.driver().call('access.fns', {})}
    for path in sorted(glob.glob(os.path.join(core.VERIF, 'corpus', 'C15', '*.json'))):
        with open(path) as fh:
            r = json.load(fh)['replay']
        if r.get('stream') != 'access':
            continue       # REST regressions are part of the rest stream's fixed case list
        t = r['target']
        T = [x for x in w.base['resources'] if x['t'] == t['t'] and x['n'] == t['n'] and x['p'] == t['p']]
        if not T or r['fn'] not in fns:
            ctx.broken_tie('corpus', os.path.basename(path), 'corpus case no longer resolvable')
            continue
        case = {'fn': fns[r['fn']], 'actor': r['actor'], 'T': T[0], 'form': r['form'],
                'variant': r['variant'], 'ins': None, 'filters': r.get('filters')}
        args, kwargs, margs = make_call(w, case)
        obs, after = w.run_case(case['actor'], r['fn'], args, kwargs, after=True)
        ctx.evaluated('corpus', os.path.basename(path), nontrivial=True)
        ctx.count('corpus', '%s:%s' % (r['fn'], obs['k']))
        monitor(ctx, case, obs, after, w)


def correspond(ctx):
    from harness import access
    from harness import access_extra
    w = access.get_world()
    run_corpus(ctx, w)
    stream_access(ctx, w)
    access_extra.stream_members(ctx, w)
    access_extra.stream_expr(ctx, w)
    access_extra.stream_execute(ctx, w)
    access_extra.stream_rest(ctx, w)
    ctx.cov['exhaustive'] = True


def search(ctx):
    """failing-input search: the cross product above is already the whole finite space and its
    monitor ran on every case; what remains is to look at the neighbourhood the quick tier
    skips (after-snapshots of read functions) and to re-run with the thorough settings."""
    if not ctx.thorough():
        ctx.tier = 'thorough'
        try:
            from harness import access
            stream_access(ctx, access.get_world())
        finally:
            ctx.tier = 'quick'


def replay(ctx, rep):
    from harness import access
    from harness import access_extra
    r = rep['replay']
    w = access.get_world()
    if r.get('stream') == 'access':
        fns = {f['name']: f for f in ctx.driver().call('access.fns', {})}
        case = {'fn': fns[r['fn']], 'actor': r['actor'], 'T': r['target'], 'form': r['form'],
                'variant': r['variant'], 'ins': None, 'filters': r.get('filters')}
        # ordinals are stable: the population is rebuilt in the same order
        args, kwargs, margs = make_call(w, case)
        obs, after = w.run_case(case['actor'], case['fn']['name'], args, kwargs, after=True)
        print('replay: %s(*%r, **%r) as %s -> %s' % (r['fn'], [str(x)[:40] for x in args], kwargs, r['actor'],
                                                       json.dumps(obs, default=str)))
        monitor(ctx, case, obs, after, w)
    else:
        access_extra.replay(ctx, w, rep)
