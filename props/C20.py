"""C20 — lost executors and stuck tasks are detected and the run moves on exactly once.

Tie A: translate/heartbeat_defaults.py (option defaults, the shape of the expiry query, the
       last_heartbeat column default, which exceptions the checker catches per action, the
       integrity-check comparisons and delays) and translate/states.py (completed states).
Tie B: stream `heartbeat` (harness/heartbeat_stream.py): every C20-relevant transaction of the real
       engine / checker service vs Mistral.Heartbeat.step, one transaction at a time.
Monitors: the statement read directly on the same runs (see heartbeat_stream.Runner.mon_*).
"""
GEN = ['states', 'heartbeat_defaults']
MANIFEST = {
    'technique': 'Lean 4 theorems over an executable model of the heartbeat checker, of result acceptance and of '
                 'the execution integrity check (parameters regenerated from the source); step-by-step '
                 'differential check of the model against the real checker service / engine under a virtual clock',
    'text': 'Theorems (all configurations, worlds and event histories): the expiry query returns exactly the RUNNING '
            'synchronous actions whose last heartbeat is strictly older than now - max_missed*interval, the first '
            'deadline is creation + first_heartbeat_timeout, a heartbeat resets the deadline; fresh / asynchronous / '
            'finished actions are never returned and never changed by a pass; a disabled service never acts; the '
            'expiry is the same transition as an executor error result; whichever of expiry and genuine result comes '
            'second is rejected, and over all interleavings of passes, results, heartbeats, integrity checks every '
            'action accepts at most one result and every task is completed at most once (induction over event '
            'lists); a task that is stuck and examined is completed by the integrity check, a task that is not stuck '
            'is untouched, the check reschedules itself unless disabled or the workflow is finished. Three full '
            'statements are FALSE of the code and kept as *_full_fails with witnesses replayed on the real engine '
            '(task-less actions never expired; an action with a deleted definition poisons every pass; the integrity '
            'check only examines the first batch_size RUNNING tasks).',
    'note': 'one Event = one committed transaction (in-process atomicity); sub-transaction races between several '
            'engines on a real RDBMS are not exhibited; workflow-level error handling (on-error / retry / workflow '
            'state) is checked by the monitors on the real engine, not proved; SQLAlchemy/sqlite, oslo.config and '
            'the harness seams are trusted; Lean kernel + propext/Classical.choice/Quot.sound',
}
RULE = ('stream heartbeat: generated workflows (1-4 parallel branches: sync / echo / async / with-items / sub-workflow '
        '/ retry / ad-hoc action, optional on-error and on-success routes) x settings (max_missed 0-3, interval '
        '0-20, first timeout 0-60, batch 0-10, integrity delay -1..20, integrity batch 1-5) x scripted histories by '
        'flavour (plain, race, stuck, poison, taskless, disabled, batch, intbatch, boundary): clock moved to the expiry '
        'deadline -1/0/+1, heartbeats, service iterations, direct passes, early / late / duplicate results, direct DB '
        'completions, dropped with-items jobs and sub-workflow messages, integrity jobs.  One evaluation = one '
        'modelled transaction compared with the model; non-trivial = the transaction changed a row or raised; '
        'distinct = distinct (settings, abstract world, event)')
TRUSTED = [
    'translate/heartbeat_defaults.py and translate/states.py (AST readers, fail closed)',
    'harness seams of engine_driver (post-commit thread, RPC client, scheduler, executor, clock, ids) and of '
    'heartbeat_stream (threading.Timer / time.sleep of the checker module replaced for one loop iteration)',
    'SQLAlchemy / sqlite transaction atomicity, oslo.config overrides',
    'the abstraction function Runner.abstract (rows -> model world): hasParent from row existence, defKnown from '
    'the harness\'s own record of the deleted definition, task visibility to the integrity job = owner project',
]
ASSUMPTIONS = ['pecan.auth_enable is True in the harness (the production default); the workflow owner is a '
               'non-admin context of project <default-project>']

ALL_FLAVORS = ['boundary', 'plain', 'race', 'stuck', 'poison', 'taskless', 'disabled', 'batch', 'intbatch',
               'boundary', 'race', 'stuck', 'plain']


def correspond(ctx):
    from vlib import par
    k = 14
    n = ctx.n(15, 420)
    par.run_parallel(ctx, 'harness.heartbeat_stream', 'run_chunk',
                     [{'n_scenarios': n, 'flavors': ALL_FLAVORS[i % 5:] + ALL_FLAVORS[:i % 5]} for i in range(k)])


def search(ctx):
    """Failing-input search after a broken obligation / disagreement: the monitors read the statement on
    every run, so widen the population (fresh scenarios of every flavour, boundary scripts first)."""
    from vlib import par
    k = 14
    par.run_parallel(ctx, 'harness.heartbeat_stream', 'run_chunk',
                     [{'n_scenarios': ctx.n(10, 200), 'flavors': ['boundary', 'race', 'stuck', 'plain', 'batch', 'disabled'],
                       'salt': 'search-%d' % i} for i in range(k)])


def replay(ctx, rep):
    from harness import heartbeat_stream as hs
    r0 = rep['replay']
    drv = ctx.driver()
    r = hs.run_scenario(ctx, r0['scenario'], r0['seed'], drv)
    for e in r.events:
        print('replay:', e)
    for what, sig, detail in r.hits:
        print('replay hit:', sig, what[:200])
    hs.report(ctx, r, r0['scenario'], r0['seed'])
