"""C02 — the result of a run does not depend on event order, timing or engine caches."""
GEN = ['states']
MANIFEST = {
    'technique': 'paired-schedule differential runs of the real engine + engine model refinement check; Lean 4 '
                 'theorems for the order-insensitivity of the three set-reading decision points',
    'text': 'Theorems: join_verdict_order_independent (the join verdict depends on the listed rows only through the '
            'latest row of each task), verdict_order_independent (the completion verdict is invariant under permutation '
            'of the task rows), merge_order_independent (version merge at a join, ARBITRARILY NESTED values, at every leaf path both contexts hold: '
            'both merge orders give the same leaf and version unless two concurrent branches published the path), '
            'merge_grouping_independent (associativity: how a join groups >=3 inbound contexts is irrelevant, no tie '
            'hypothesis), published_data_order_independent (WHOLE fork/join publish histories: listing the rows of every '
            'join in another order shows every task the same leaf whenever its publishers have a causally latest one; '
            'C05Causal, hypothesis shape-stable republication). The '
            'whole-run statement is decided on the real engine: every generated program of the deterministic class '
            '(single activation, no partial join, no engine command racing branches) is run under two different '
            'schedules, with and without spec-cache eviction before every event and with an engine restart, and the '
            'outcomes (final state, task states and published variables, output) must be equal; the core stream adds '
            'that every explored schedule matches the one Lean model event by event.',
    'note': 'Confluence of the engine model itself (any two complete schedules give equal outcomes) is NOT proved; '
            'it is sampled. cachetools LRU is not modelled (eviction is exercised, not proved).',
}
RULE = ('stream engine (mode paired): program x oracle x two schedules (+evict, +restart); non-trivial = all paired '
        'cases; distinct = distinct (definition, oracle, both schedule seeds); stream core as in C01; stream ctx as in C05 (the real data-flow functions on generated publish histories, every inbound context in all row orders, against Mistral.Ctx + order-independence monitor + the leaf-granular causal monitor on every row order; stream hist: whole histories against Mistral.Hist)')
TRUSTED = ['harness seams replaced by recorders']
LEAN_MODULES = ['Mistral.Props.C02']


def correspond(ctx):
    from vlib import par
    par.run_parallel(ctx, 'harness.engine_stream', 'run_chunk',
                     [{'n_programs': ctx.n(12, 400), 'props': ['C02'], 'mode': 'paired'}] * 14)
    par.run_parallel(ctx, 'harness.core_stream', 'run_chunk', [{'n_programs': ctx.n(8, 200), 'mode': 'plain'}] * 14)
    # the tie of merge_order_independent: the REAL data-flow functions on generated publish histories with every
    # inbound context evaluated in ALL row orders (joins <= 4 parents) against Mistral.Ctx, and the monitor
    # "the upstream context does not depend on the order the rows are listed when no publishers are concurrent"
    par.run_parallel(ctx, 'harness.ctx_stream', 'run_chunk', [{'n_histories': ctx.n(100, 3000)}] * 14)


def search(ctx):
    from vlib import par
    par.run_parallel(ctx, 'harness.ctx_stream', 'run_chunk', [{'n_histories': 1000}] * 14)
    if ctx.violations:
        return
    par.run_parallel(ctx, 'harness.engine_stream', 'run_chunk',
                     [{'n_programs': 40, 'props': ['C02'], 'mode': 'paired'}] * 14)


def replay(ctx, rep):
    r = rep.get('replay', rep)
    if isinstance(r, dict) and ('history' in r or r.get('lookup')):
        from harness import ctx_stream
        ctx_stream.replay(ctx, r)
        return
    from harness import engine_stream
    engine_stream.replay(ctx, rep, ['C02'])
