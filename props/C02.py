"""C02 — the result of a run does not depend on event order, timing or engine caches."""
GEN = ['states']
MANIFEST = {
    'technique': 'Lean 4 refinement theorem: the engine model refines a declarative (schedule-free) semantics, for ALL '
                 'histories by invariants; the semantics itself is checked against the real engine at quiescence; '
                 'paired-schedule differential runs of the real engine; engine model refinement check after every event',
    'text': 'SCHEDULE INDEPENDENCE OF THE OUTCOME IS A THEOREM of the engine model, at full strength (Mistral.Props.C02Sem). '
            'Mistral.Sem is a declarative semantics of the data-free direct workflows Mistral.Engine models: which tasks run, '
            'their final states and next_tasks and the final workflow state as a function of the definition and the action '
            'results ONLY (least fixed point over the acyclic graph: start tasks run; a completed task routes to its fired '
            'on-clauses; a non-join target runs; a join runs its action when the required number of inbound tasks routed to it '
            'and is ERROR when that can no longer happen; verdict = check_and_complete rule). For every definition of the class '
            'DetClass (SpecOK of WP-A: unique names, satisfiable join: N, acyclic; a start task; known targets - joins all / one '
            '/ N, forks, on-error / on-complete, guards that do not fire, several activations, partial joins re-run by late '
            'branches), every oracle and EVERY plain history (deliveries in any order, pause / resume anywhere, no stop, no lost '
            'action, executor results = the oracle\'s): sound (at every moment every row is a task of the semantic set and every '
            'completed row has the prescribed state and next_tasks), complete_at_quiescence (nothing pending and not PAUSED: the '
            'workflow state is the semantic verdict and the rows are EXACTLY the semantic set of (name, state, next_tasks)), '
            'quiescent_is_final, executions_per_task (a join of the semantic set has exactly one execution), hence outcome_schedule_independent (ANY two plain quiescent histories have equal outcomes) and '
            'pause_resume_same_outcome (a quiescent history with pause / resume anywhere = any quiescent history never paused). '
            'The two exclusions the first version of these theorems needed were genuine defects, both repaired: the re-opened join '
            'keeping processed=True (acd6a089) and the stale start request (resume re-queues start_task(first_run=False) for an '
            'IDLE task; delivered after the task FAILED it ran the task again: repo_patches/20, model follows; '
            'stale_request_regression + corpus/C02 regression). Ties: stream `sem` (real engine run to quiescence under random '
            'schedules + pause/resume + cache eviction, compared with the semantics computed by the Lean driver - not with another '
            'run - and real rows sound on every prefix), stream `core` (every explored schedule equals the one Lean model after '
            'EVERY event), stream `engine` mode paired (programs with data flow: two schedules, +evict, +restart, equal outcomes), '
            'stream `ctx`. The multiset reading (each task of a single-activation definition executed exactly once) is FALSE of the '
            'code also for join: all (executions_once_full_fails: a join that failed early is re-opened by a late branch and its '
            'successors run twice; real-engine replay corpus/C02/early_error_join_rerun.json, known finding); in the strict class it is '
            'monitored by the sem stream, not proved. Local theorems (C02): join_verdict_order_independent, verdict_order_independent, '
            'merge_order_independent (version merge at a join, ARBITRARILY NESTED values, at every leaf path both contexts hold: '
            'both merge orders give the same leaf and version unless two concurrent branches published the path), '
            'merge_grouping_independent (associativity: how a join groups >=3 inbound contexts is irrelevant, no tie hypothesis), '
            'published_data_order_independent (WHOLE fork/join publish histories: listing the rows of every join in another order '
            'shows every task the same leaf whenever its publishers have a causally latest one; C05Causal, hypothesis shape-stable '
            'republication), join_rows_order_independent (a join with ANY number of inbound rows, and the final context over '
            'any number of end tasks read in batches of any size: another row order shows the same leaf; C05Final).',
    'note': 'The theorems are about Mistral.Engine (one event = one committed transaction; data flow / expressions / policies / '
            'with-items / sub-workflows outside): published variables and output are covered by merge_order_independent (C05) and '
            'the paired runs only. Outcome = workflow state + SET of rows: the NUMBER of executions of a task that is activated '
            'several times (partial join re-run by a late branch) does depend on the order and is not claimed. Hypotheses: '
            'SpecOK / TargetsKnown are what the validator guarantees + acyclicity; histories start with `start`. cachetools LRU is not '
            'modelled (eviction is exercised, not proved). Fairness is assumed (quiescence is a hypothesis).',
}
RULE = ('stream engine (mode paired): program x oracle x two schedules (+evict, +restart); non-trivial = all paired '
        'cases; distinct = distinct (definition, oracle, both schedule seeds); stream core as in C01; stream sem: corpus of '
        'theorem counter-witnesses (model event lists replayed on the real engine) + small acyclic definitions (<=5 tasks, '
        'joins all/one/N with successors, guards that do not fire, 30% multi-activation), indirect-join shapes and larger '
        'single-activation DAGs with task-defaults x oracle (set of failing tasks) x random/fifo/lifo schedule x 0-2 '
        'pause/resume rounds x cache eviction on/off on the REAL engine, outcome at quiescence vs Mistral.Sem; non-trivial = '
        'a join, a failing task or an operator command; distinct = distinct (definition, oracle, schedule seed, commands, evict); stream ctx as in C05 (the real data-flow functions on generated publish histories, every inbound context in all row orders, against Mistral.Ctx + order-independence monitor + the leaf-granular causal monitor on every row order; stream hist: whole histories against Mistral.Hist)')
TRUSTED = ['harness seams replaced by recorders']
LEAN_MODULES = ['Mistral.Props.C02', 'Mistral.Props.C02Sem', 'Mistral.Props.C01X']


def correspond(ctx):
    from vlib import par
    par.run_parallel(ctx, 'harness.engine_stream', 'run_chunk',
                     [{'n_programs': ctx.n(12, 400), 'props': ['C02'], 'mode': 'paired'}] * 14)
    par.run_parallel(ctx, 'harness.core_stream', 'run_chunk', [{'n_programs': ctx.n(8, 200), 'mode': 'plain'}] * 14)
    # the declarative semantics itself against the real engine (not run against run): real runs to quiescence
    # under random schedules (+pause/resume, +cache eviction) vs `sem.rows` of the Lean driver
    par.run_parallel(ctx, 'harness.sem_stream', 'run_chunk', [{'n_programs': ctx.n(10, 300)}] * 14)
    # the tie of merge_order_independent: the REAL data-flow functions on generated publish histories with every
    # inbound context evaluated in ALL row orders (joins <= 4 parents) against Mistral.Ctx, and the monitor
    # "the upstream context does not depend on the order the rows are listed when no publishers are concurrent"
    par.run_parallel(ctx, 'harness.ctx_stream', 'run_chunk', [{'n_histories': ctx.n(100, 3000)}] * 14)
    # the tie of join_verdict_order_independent / possibleRoute_congr: the REAL _get_join_logical_state on generated
    # graphs with synthetic task rows against Mistral.Join
    par.run_parallel(ctx, 'harness.join_stream', 'run_chunk',
                     [{'n_programs': ctx.n(8, 200), 'rows_per_program': ctx.n(8, 20)}] * 14)


def search(ctx):
    from vlib import par
    par.run_parallel(ctx, 'harness.ctx_stream', 'run_chunk', [{'n_histories': 1000}] * 14)
    if ctx.violations:
        return
    par.run_parallel(ctx, 'harness.engine_stream', 'run_chunk',
                     [{'n_programs': 40, 'props': ['C02'], 'mode': 'paired'}] * 14)


def replay(ctx, rep):
    if isinstance(rep.get('replay'), dict) and rep['replay'].get('stream') == 'sem':
        from harness import sem_stream
        sem_stream.replay(ctx, rep)
        return
    r = rep.get('replay', rep)
    if isinstance(r, dict) and ('history' in r or r.get('lookup')):
        from harness import ctx_stream
        ctx_stream.replay(ctx, r)
        return
    from harness import engine_stream
    engine_stream.replay(ctx, rep, ['C02'])
