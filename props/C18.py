"""C18 — the expiration policy deletes only what it is configured to delete.

Tie A: option defaults of [execution_expiration_policy] and states.TERMINAL_STATES are
regenerated from /repo (translate/expiration_defaults.py); theorems depend on them.
Tie B: stream `expire` — generated populations of execution trees x option combinations are
inserted through the real db-api into in-memory sqlite, the REAL
`run_execution_expiration_policy` runs once, and the before/after row sets of the three
execution tables are compared with `Mistral.Expire.evaluate` (compiled driver).
Stream `expire-fault` does the same while a row vanishes between fetch and delete (what a
second engine's evaluator does), streams `enabled`, `defaults`, `periodic` tie the enabling
condition, the generated defaults and the periodic-task path.
Monitor: the property statement read on the before/after row sets, independent of the model.
"""
import itertools

GEN = ['expiration_defaults']
MANIFEST = {
    'technique': 'Lean 4 theorems over an executable model of the expiration policy (selection queries, '
                 'batch loops, foreign-key cascade) + differential check of that model against the real '
                 'run_execution_expiration_policy on generated populations in in-memory sqlite',
    'text': 'Theorems, for every population (unique ids), configuration, clock value, delete-failure '
            'environment and fuel: every removed row is a finished, non-ignored root execution older than the '
            'age or beyond the newest max_finished ones, or lies in the subtree of such a removed root; removed '
            'roots are never RUNNING/PAUSED/IDLE; a row is never removed without its parent; after a normal '
            'evaluation no removed root is newer than a kept eligible one (ties may fall either way); the '
            'remaining rows are parent-closed; the loops stop within |population|+1 iterations because every '
            'non-empty batch strictly shrinks the population; an unset option imposes no constraint (unset '
            'older_than: only the max_finished rule applies; unset/0 max_finished: only the age rule). The '
            'model is tied to the code by running both on generated populations x option combinations, and an '
            'independent monitor evaluates the property statement on the real before/after row sets.',
    'note': 'sqlite with foreign keys ON stands for the production RDBMS (cascade, ORDER BY/OFFSET/LIMIT '
            'semantics trusted); the order among equal updated_at is DB-arbitrary and given to the model as list '
            'order; negative option values and the MySQL max-depth fallback are not modelled; concurrent '
            'evaluators only as "a delete fails"; Lean kernel + propext/Classical.choice/Quot.sound',
}
RULE = ('a case = (population of execution trees: 0-8 roots, nesting <= 3, tasks/actions, ad-hoc actions, '
        'states incl. RUNNING/PAUSED/IDLE, updated_at clustered on the age threshold -2..+2 s with equal '
        'timestamps, 3 projects) x (older_than unset/0/n, max_finished unset/0/1..#finished+1, batch_size '
        '0..#roots+1, ignored_states subsets incl. non-terminal names); non-trivial when at least one finished '
        'root exists and the evaluation removed a row, kept an eligible root, or raised; distinct = distinct '
        '(configuration, population with times relative to the threshold)')
TRUSTED = [
    'sqlite (PRAGMA foreign_keys=ON, as mistral configures it) stands for the production database: '
    'ON DELETE CASCADE, ORDER BY ... DESC, OFFSET, LIMIT; the order of rows with equal updated_at and the '
    'pick order of the un-ordered LIMIT query are database-internal: the model takes them as list order and '
    'the harness derives a consistent order from the observed outcome (only among ties / within a batch pick)',
    'translator translate/expiration_defaults.py (AST read of config.py option list and states.TERMINAL_STATES)',
    'the harness (harness/expire_driver.py): row insertion through db_api.create_*, the overridden clock '
    '(oslo_utils.timeutils.set_time_override), the injected row disappearance between fetch and delete',
    'negative older_than / max_finished_executions / batch_size, the MySQL/MariaDB max-depth fallback '
    '(delete_workflow_execution_recurse) and sub-second timestamps are outside the model',
]
ASSUMPTIONS = ['primary keys are unique (UniqueIds hypothesis of the theorems)',
               'one evaluator at a time except for the modelled "delete fails" environment']

WF_STATES = ['SUCCESS', 'ERROR', 'CANCELLED', 'RUNNING', 'PAUSED', 'IDLE']
WF_WEIGHTS = [5, 3, 3, 2, 2, 1]
# the property statement's own words, used by the monitor only:
FINISHED = ('SUCCESS', 'ERROR', 'CANCELLED')


# --------------------------------------------------------------------------- generation
def gen_case(rng, fault=False):
    ot = rng.choice([None, 0, 1, 1, 1, 2, 2, 3, 3, 10, 60, 60])
    now = rng.choice([0, 0, 7, 3600])
    exp = now - (ot if ot is not None else rng.choice([1, 2, 5])) * 60
    pool = [exp + d for d in (-2, -1, -1, 0, 0, 1, 1, 2)]
    pool += [exp - rng.randint(3, 5000) for _ in range(2)] + [exp + rng.randint(3, 5000) for _ in range(2)]
    used = set()

    def when(root):
        if fault and root:
            while True:
                t = rng.choice(pool) if rng.random() < 0.6 else exp + rng.randint(-300, 300)
                if t not in used:
                    used.add(t)
                    return t
        return rng.choice(pool) if rng.random() < 0.85 else exp + rng.randint(-10000, 10000)

    pop = []

    def node(kind, parent, state, project, root=False):
        n = {'id': len(pop) + 1, 'kind': kind, 'parent': parent, 'state': state,
             'updatedAt': when(root), 'project': project}
        pop.append(n)
        return n['id']

    def tree(parent_task, depth, project):
        w = node('wf', parent_task, rng.choices(WF_STATES, WF_WEIGHTS)[0], project, root=parent_task is None)
        for _ in range(rng.choice([0, 1, 1, 2, 3]) if depth < 3 else rng.choice([0, 0, 1])):
            tk = node('task', w, rng.choice(['SUCCESS', 'ERROR', 'RUNNING', 'IDLE']), project)
            for _ in range(rng.choice([0, 0, 1, 2])):
                node('action', tk, rng.choice(['SUCCESS', 'ERROR', 'RUNNING']), project)
            if depth < 3 and rng.random() < 0.4:
                for _ in range(rng.choice([1, 1, 2])):
                    tree(tk, depth + 1, project if rng.random() < 0.85 else rng.randrange(3))

    n_roots = rng.choice([0, 1, 2, 3, 3, 4, 4, 5, 6, 7, 8])
    for _ in range(n_roots):
        if rng.random() < 0.12:
            node('action', None, rng.choice(['SUCCESS', 'ERROR', 'RUNNING']), rng.randrange(3))  # ad-hoc action
        tree(None, 1, rng.randrange(3))
    nfin = sum(1 for n in pop if n['kind'] == 'wf' and n['parent'] is None and n['state'] in FINISHED)
    r = rng.random()
    mf = None if r < 0.1 else 0 if r < 0.3 else rng.randint(1, nfin + 1)
    bs = 0 if rng.random() < 0.25 else rng.choice([1, 1, 2, rng.randint(1, n_roots + 1)])
    ign = [s for s in FINISHED if rng.random() < 0.25]
    for extra, p in (('RUNNING', 0.05), ('PAUSED', 0.03), ('bogus', 0.03)):
        if rng.random() < p:
            ign.append(extra)
    cfg = {'evaluationInterval': rng.choice([None, 0, 1, 5]), 'olderThan': ot, 'maxFinished': mf,
           'batchSize': bs, 'ignoredStates': ign}
    inject = None
    if fault:
        if cfg['olderThan'] is None:
            cfg['olderThan'] = 1
        inject = {'fetch': rng.choice(['expired', 'superfluous']), 'call': rng.choice([1, 1, 2])}
        if cfg['batchSize'] == 0 and inject['call'] == 2:
            cfg['batchSize'] = 1
    return {'pop': pop, 'cfg': cfg, 'now': now, 'inject': inject}


def small_cases():
    """Exhaustive part: option combinations x populations of <= 2 trees (ordered), each tree a
    root in {SUCCESS, ERROR, RUNNING, PAUSED} x {older, exactly on the threshold, newer} x
    {leaf, with a task + action + finished old sub-execution}."""
    opts = list(itertools.product(['SUCCESS', 'ERROR', 'RUNNING', 'PAUSED'], [-1, 0, 1], [False, True]))
    cfgs = list(itertools.product([None, 1], [None, 0, 1, 2, 3], [0, 1, 2], [[], ['ERROR']]))
    for k in (0, 1, 2):
        for roots in itertools.product(opts, repeat=k):
            pop = []
            for (state, dt, sub) in roots:
                rid = len(pop) + 1
                pop.append({'id': rid, 'kind': 'wf', 'parent': None, 'state': state, 'updatedAt': -60 + dt,
                            'project': len(pop) % 2})
                if sub:
                    pop.append({'id': rid + 1, 'kind': 'task', 'parent': rid, 'state': 'SUCCESS',
                                'updatedAt': -60 + dt, 'project': 0})
                    pop.append({'id': rid + 2, 'kind': 'action', 'parent': rid + 1, 'state': 'SUCCESS',
                                'updatedAt': -500, 'project': 0})
                    pop.append({'id': rid + 3, 'kind': 'wf', 'parent': rid + 1, 'state': 'SUCCESS',
                                'updatedAt': -500, 'project': 0})
            for (ot, mf, bs, ign) in cfgs:
                yield {'pop': [dict(n) for n in pop],
                       'cfg': {'evaluationInterval': 1, 'olderThan': ot, 'maxFinished': mf, 'batchSize': bs,
                               'ignoredStates': list(ign)},
                       'now': 0, 'inject': None}


# --------------------------------------------------------------------------- monitor
def monitor(cfg, now, before, after, info):
    """The property statement, read on the real before/after row sets.
    before/after: {dbid: (kind, state, updated_at, project, parent dbid)}.
    -> list of (what, signature, extra)."""
    hits = []
    ot, mf, ign = cfg['olderThan'], cfg['maxFinished'], set(cfg['ignoredStates'])
    deleted = [k for k in before if k not in after]
    dset = set(deleted)

    def is_root(r):
        return r[0] == 'wf' and r[4] is None

    def finished(r):
        return r[1] in FINISHED and r[1] not in ign

    for k in after:
        if k not in before or after[k] != before[k]:
            hits.append(('row %s created or changed by the evaluation' % k, {'kind': 'row-changed'}))
    for d in deleted:
        r = before[d]
        if is_root(r):
            if r[1] in ('RUNNING', 'PAUSED'):
                hits.append(('%s root execution %s deleted' % (r[1], d),
                             {'kind': 'running-or-paused-root-deleted', 'state': r[1]}))
            elif not finished(r):
                hits.append(('root execution %s in state %s (ignored=%s) deleted' % (d, r[1], sorted(ign)),
                             {'kind': 'unfinished-or-ignored-root-deleted',
                              'class': 'ignored' if r[1] in ign else 'not-finished'}))
            else:
                older = ot is not None and r[2] < now - ot * 60
                others = sum(1 for k2, r2 in before.items()
                             if k2 != d and is_root(r2) and finished(r2) and r2[2] >= r[2])
                beyond = bool(mf) and others >= mf
                if not (older or beyond):
                    on_edge = ot is not None and r[2] == now - ot * 60
                    hits.append(('finished root %s (updated %s, threshold %s) deleted though neither older than '
                                 'the age nor beyond the %s newest finished (only %d at least as new)'
                                 % (d, r[2], None if ot is None else now - ot * 60, mf, others),
                                 {'kind': 'root-deleted-neither-old-nor-beyond-max',
                                  'class': 'exactly-on-age-threshold' if on_edge else 'other'}))
        else:
            if r[4] is None or r[4] not in dset:
                hits.append(('%s row %s deleted on its own (parent %s kept)' % (r[0], d, r[4]),
                             {'kind': 'row-deleted-without-its-parent', 'table': r[0]}))
    if info['outcome'] == 'ok':
        kept = [r for k, r in after.items() if is_root(r) and finished(r)]
        for d in deleted:
            r = before[d]
            if is_root(r) and kept:
                oldest = min(x[2] for x in kept)
                if oldest < r[2]:
                    hits.append(('root %s (updated %s) deleted while an older eligible root (updated %s) is kept'
                                 % (d, r[2], oldest), {'kind': 'newer-deleted-older-eligible-kept'}))
                    break
    for k, r in after.items():
        if r[4] is not None and r[4] not in after:
            hits.append(('%s row %s left without its parent %s' % (r[0], k, r[4]),
                         {'kind': 'orphan-left', 'table': r[0]}))
    if info['outcome'] == 'timeout':
        hits.append(('the evaluation did not terminate within the time limit', {'kind': 'no-termination'}))
    elif info['outcome'] != 'ok':
        hits.append(('the evaluation raised %s in %s (%s)' % (info['exception'], info['site'], info.get('message')),
                     {'kind': 'evaluation-raises', 'exception': info['exception'], 'function': info['site'],
                      'older_than_unset': ot is None,
                      'injected_delete_failure': info['victim'] is not None}))
    return hits


# --------------------------------------------------------------------------- one case
def _dump_kinds(d):
    kinds = {'w': 'wf', 't': 'task', 'a': 'action'}
    return {k: (kinds[k[0]],) + tuple(v) for k, v in d.items()}


def run_impl(case):
    from harness import expire_driver as ed
    from vlib.core import Infra
    ed.clear_db()
    ed.insert(case['pop'])
    before = _dump_kinds(ed.dump())
    by_id = {n['id']: n for n in case['pop']}
    for n in case['pop']:
        r = before.get(ed.dbid(n))
        want = (n['kind'], n['state'], n['updatedAt'], 'proj-%s' % n['project'],
                ed.dbid(by_id[n['parent']]) if n['parent'] is not None else None)
        if r != want:
            raise Infra('population not stored as generated: %s vs %s' % (r, want))
    if len(before) != len(case['pop']):
        raise Infra('population not stored as generated (row count)')
    info = ed.run_policy(case['cfg'], case['now'], case.get('inject'),
                         via_periodic=case.get('via_periodic', False))
    after = _dump_kinds(ed.dump())
    return before, after, info


def model_input(case, after, info):
    from harness import expire_driver as ed
    pop = case['pop']
    remaining = {n['id'] for n in pop if ed.dbid(n) in after}
    crashed_by_fault = info['victim'] is not None and info['outcome'] != 'ok'
    # database-internal order (ties of ORDER BY, pick order of the un-ordered LIMIT query):
    # any order consistent with the observed outcome; everything else is decided by the model
    if crashed_by_fault:
        # rows removed by the committed batches first, then the row whose delete failed
        key = lambda i_n: (0 if i_n[1]['id'] not in remaining else
                           1 if ed.dbid(i_n[1]) == info['victim'] else 2, i_n[0])
    else:
        key = lambda i_n: (0 if i_n[1]['id'] in remaining else 1, i_n[0])
    ordered = [n for _, n in sorted(enumerate(pop), key=key)]
    failing = []
    if info['victim'] is not None:
        failing = [n['id'] for n in pop if ed.dbid(n) == info['victim']]
    return {'pop': ordered, 'cfg': case['cfg'], 'now': case['now'], 'failing': failing}, remaining


def case_key(case):
    ot = case['cfg']['olderThan']
    exp = case['now'] - (ot or 0) * 60
    return [case['cfg'], case.get('inject'),
            [(n['kind'], n['parent'], n['state'], n['updatedAt'] - exp) for n in case['pop']]]


def run_case(ctx, stream, case, record=True):
    before, after, info = run_impl(case)
    hits = monitor(case['cfg'], case['now'], before, after, info)
    margs, remaining = model_input(case, after, info)
    mo = ctx.driver().call('expire.evaluate', margs)
    impl_out = {'outcome': info['outcome'], 'remaining': sorted(remaining)}
    if isinstance(mo, dict) and 'remaining' in mo:
        mo = {'outcome': mo['outcome'], 'remaining': sorted(mo['remaining'])}
    deleted = [k for k in before if k not in after]
    roots_fin = [k for k, r in before.items() if r[0] == 'wf' and r[4] is None and r[1] in FINISHED]
    if record:
        nontrivial = bool(roots_fin) and (bool(deleted) or info['outcome'] != 'ok' or
                                          any(k in after for k in roots_fin))
        ctx.evaluated(stream, case_key(case), nontrivial=nontrivial)
        ctx.count(stream, 'outcome:' + info['outcome'])
        ctx.count(stream, 'deleted-roots:%s' % min(4, sum(1 for k in deleted if before[k][0] == 'wf' and before[k][4] is None)))
        ctx.count(stream, 'deleted-rows:%s' % ('0' if not deleted else '1-5' if len(deleted) <= 5 else '6+'))
        ctx.count(stream, 'fetches-expired:%s' % min(4, info['fetches']['expired']))
        ctx.count(stream, 'fetches-superfluous:%s' % min(4, info['fetches']['superfluous']))
        ctx.count(stream, 'older_than:%s' % ('unset' if case['cfg']['olderThan'] is None else 'set'))
        ctx.count(stream, 'max_finished:%s' % ('unset' if case['cfg']['maxFinished'] is None else
                                                 '0' if case['cfg']['maxFinished'] == 0 else 'set'))
        ctx.count(stream, 'batch:%s' % ('0' if case['cfg']['batchSize'] == 0 else 'n'))
        if case['cfg']['ignoredStates']:
            ctx.count(stream, 'ignored_states:non-empty')
        if any(before[k][0] == 'wf' and before[k][4] is not None for k in deleted):
            ctx.count(stream, 'sub-executions-deleted-with-root')
        if any(before[k][0] == 'wf' and before[k][4] is not None and before[k][1] not in FINISHED for k in deleted):
            ctx.count(stream, 'unfinished-sub-execution-deleted-with-its-finished-root')
        ot = case['cfg']['olderThan']
        if ot is not None and any(r[0] == 'wf' and r[4] is None and r[2] == case['now'] - ot * 60
                                  for r in before.values()):
            ctx.count(stream, 'root-exactly-on-threshold')
        ts = [before[k][2] for k in roots_fin]
        if len(set(ts)) < len(ts):
            ctx.count(stream, 'equal-timestamps-among-finished-roots')
        if len({r[3] for r in before.values()}) > 1:
            ctx.count(stream, 'several-projects')
        if deleted and len(ctx.cov['samples']) < 6 and ctx.rng.random() < 0.05:
            ctx.sample({'cfg': case['cfg'], 'rows_before': len(before), 'deleted': sorted(deleted),
                        'outcome': info['outcome'], 'model': mo['outcome'] if isinstance(mo, dict) else mo})
    if mo != impl_out:
        ctx.disagree(stream, case, mo, impl_out)
    for what, sig in hits:
        # one replay per signature is enough; shrink it first
        if not any(v['signature'] == sig for v in ctx.violations) and not _is_known(ctx, sig):
            small = shrink(case, sig)
            ctx.violation(what, small, sig)
        else:
            ctx.violation(what, case, sig)
    return hits, mo == impl_out


def _is_known(ctx, sig):
    return any(k['property'] == ctx.prop and k['signature'] == sig for k in ctx.known)


def shrink(case, sig):
    """Greedy: drop whole trees (and ad-hoc rows) while the same monitor hit persists."""
    def hit(c):
        try:
            before, after, info = run_impl(c)
        except Exception:
            return False
        return any(s == sig for _, s in monitor(c['cfg'], c['now'], before, after, info))

    cur = case
    changed = True
    while changed:
        changed = False
        tops = [n['id'] for n in cur['pop'] if n['parent'] is None]
        for t in tops:
            drop = {t}
            grew = True
            while grew:
                grew = False
                for n in cur['pop']:
                    if n['parent'] in drop and n['id'] not in drop:
                        drop.add(n['id'])
                        grew = True
            cand = dict(cur, pop=[n for n in cur['pop'] if n['id'] not in drop])
            if cand['pop'] != cur['pop'] and hit(cand):
                cur = cand
                changed = True
                break
    return cur


# --------------------------------------------------------------------------- streams
def stream_enabled(ctx):
    from harness import expire_driver as ed
    drv = ctx.driver()
    for ei, ot, mf in itertools.product([None, 0, 1, 5, -1], [None, 0, 1, 3, -1], [None, 0, 1, 4]):
        cfg = {'evaluationInterval': ei, 'olderThan': ot, 'maxFinished': mf, 'batchSize': 0, 'ignoredStates': []}
        impl = ed.policy_registered(cfg)
        mo = drv.call('expire.enabled', cfg)
        ctx.evaluated('enabled', cfg, nontrivial=impl)
        ctx.count('enabled', 'registered' if impl else 'disabled')
        if mo != impl:
            ctx.disagree('enabled', cfg, mo, impl)


def stream_defaults(ctx):
    """The generated Lean defaults vs the live option registry and states module."""
    from harness import expire_driver as ed
    st = ed.setup()
    from mistral.workflow import states
    g = st['CONF'].execution_expiration_policy
    impl = {'evaluationInterval': g.evaluation_interval, 'olderThan': g.older_than,
            'maxFinished': g.max_finished_executions, 'batchSize': g.batch_size,
            'ignoredStates': list(g.ignored_states), 'terminalStates': sorted(states.TERMINAL_STATES)}
    mo = ctx.driver().call('expire.defaults', {})
    ctx.evaluated('defaults', 'defaults', nontrivial=True)
    if mo != impl:
        ctx.disagree('defaults', 'defaults', mo, impl)
    if not st['fk_on']:
        ctx.broken_tie('correspondence', 'defaults', 'sqlite foreign keys are OFF: cascades would not run')


def stream_periodic(ctx, n):
    """Regression for defect M(1) end to end: the policy object is built from a configuration that
    sets only max_finished_executions, the periodic-task runner calls the evaluation.  The task
    must be registered, the evaluation must apply the count rule (model: `evaluate` with
    olderThan = none) and raise nothing.  The runner swallows exceptions, so a failure shows as
    "nothing deleted"; it is then confirmed by a direct evaluation of the same case."""
    for i in range(n):
        case = gen_case(ctx.rng)
        case['cfg'].update(evaluationInterval=1, olderThan=None,
                           maxFinished=max(1, case['cfg']['maxFinished'] or 1))
        case['via_periodic'] = True
        before, after, info = run_impl(case)
        registered = info.get('registered', 0) > 0
        roots_fin = [k for k, r in before.items() if r[0] == 'wf' and r[4] is None and r[1] in FINISHED
                     and r[1] not in case['cfg']['ignoredStates']]
        ctx.evaluated('periodic', case_key(case), nontrivial=len(roots_fin) > case['cfg']['maxFinished'])
        if len(roots_fin) > case['cfg']['maxFinished']:
            ctx.count('periodic', 'superfluous-present')
        mo = ctx.driver().call('expire.enabled', case['cfg'])
        if mo != registered:
            ctx.disagree('periodic', case['cfg'], mo, registered)
        margs, remaining = model_input(case, after, dict(info, victim=None))
        m2 = ctx.driver().call('expire.evaluate', margs)
        same = m2.get('outcome') == 'ok' and sorted(m2['remaining']) == sorted(remaining)
        if not same:
            ctx.disagree('periodic', case, m2, {'remaining': sorted(remaining)})
        for what, sig in monitor(case['cfg'], case['now'], before, after, info):
            ctx.violation(what, case, sig)
        if not same:
            # the runner hides exceptions: evaluate the same case directly
            c2 = dict(case, via_periodic=False)
            b2, a2, i2 = run_impl(c2)
            for what, sig in monitor(c2['cfg'], c2['now'], b2, a2, i2):
                ctx.violation(what, c2, sig)


def stream_corpus(ctx):
    """corpus/C18/*.json first: the witnesses the Lean examples `decide`, replayed on the driver
    and on the real policy."""
    import glob
    import json
    import os
    from vlib.core import VERIF
    for path in sorted(glob.glob(os.path.join(VERIF, 'corpus', 'C18', '*.json'))):
        with open(path) as f:
            item = json.load(f)
        case = item['case']
        before, after, info = run_impl(case)
        margs, remaining = model_input(case, after, info)
        mo = ctx.driver().call('expire.evaluate', margs)
        impl_out = {'outcome': info['outcome'], 'remaining': sorted(remaining)}
        mo = {'outcome': mo['outcome'], 'remaining': sorted(mo['remaining'])}
        ctx.evaluated('corpus', os.path.basename(path), nontrivial=True)
        if not (mo == impl_out == item['expect']):
            ctx.disagree('corpus', {'file': os.path.basename(path), 'expect': item['expect']}, mo, impl_out)
        for what, sig in monitor(case['cfg'], case['now'], before, after, info):
            ctx.violation(what, case, sig)


def correspond(ctx, search_mode=False):
    from harness import expire_driver as ed
    ed.setup()
    stream_defaults(ctx)
    stream_enabled(ctx)
    stream_corpus(ctx)
    n_main = ctx.n(1500, 20000)
    n_fault = ctx.n(150, 1500)
    for i in range(n_main):
        run_case(ctx, 'expire', gen_case(ctx.rng))
    for i in range(n_fault):
        run_case(ctx, 'expire-fault', gen_case(ctx.rng, fault=True))
    stream_periodic(ctx, ctx.n(3, 40))
    if ctx.thorough():
        k = 0
        for case in small_cases():
            run_case(ctx, 'expire-small', case)
            k += 1
        ctx.cov['exhaustive'] = True
        ctx.cov['exhaustive_streams'] = {'expire-small': k}
    else:
        # a seeded slice of the exhaustive enumeration
        allc = list(small_cases())
        for case in ctx.rng.sample(allc, 800):
            run_case(ctx, 'expire-small', case)


def search(ctx):
    """Failing-input search after a broken obligation / disagreement: the monitor ran on every
    case of correspond(); widen to the thorough population (exhaustive small enumeration and
    many more random populations)."""
    if not ctx.thorough():
        ctx.tier = 'thorough'
        try:
            for case in ctx.rng.sample(list(small_cases()), 4000):
                hits, _ = run_case(ctx, 'expire-small', case, record=False)
                if ctx.violations:
                    return
            for i in range(2000):
                run_case(ctx, 'expire', gen_case(ctx.rng), record=False)
                if ctx.violations:
                    return
        finally:
            ctx.tier = 'quick'


def replay(ctx, rep):
    from harness import expire_driver as ed
    ed.setup()
    if 'replay' not in rep:
        # a "no longer checks" file: re-run the disagreeing cases it lists, then the streams
        for b in rep.get('no_longer_checks', []):
            d = b.get('detail')
            if isinstance(d, dict) and isinstance(d.get('case'), dict) and 'pop' in d['case']:
                hits, same = run_case(ctx, b['name'], d['case'], record=False)
                print('replay: stream %s case agrees with the model: %s' % (b['name'], same))
        return
    case = rep['replay']
    before, after, info = run_impl(case)
    print('replay: outcome=%s deleted=%s' % (info['outcome'], sorted(set(before) - set(after))))
    for what, sig in monitor(case['cfg'], case['now'], before, after, info):
        print('replay: monitor: %s' % what)
        ctx.violation(what, case, sig)
