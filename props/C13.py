"""C13 — scheduled jobs run once, not early, survive crashes, and only if committed.

Tie A: the scheduler option bounds (`min=` of captured_job_timeout / pickup_job_after) are
regenerated from mistral/config.py (translate/sched_defaults.py); the operators / CAS filter / invoke-delete
order of the legacy scheduler from legacy_scheduler.py and the db api (translate/sched_legacy_facts.py).
Tie B: stream `sched` — random step sequences over 1..3 REAL `DefaultScheduler` objects
(harness/sched_driver.py) against Model.Sched, full observation compared after every step;
stream `sched-exhaustive` (thorough tier) — breadth-first enumeration of every step
interleaving of small configurations (every distinct model state is expanded with every step);
stream `legacy` — 1..3 real LegacyScheduler objects against Model.SchedLegacy (select / CAS capture /
per-call invoke / delete / crash at DB-call granularity; harness/sched_legacy.py).
Monitor: the property statement evaluated on the real invocation log / job rows only.
"""
import collections
import time

GEN = ['sched_defaults', 'sched_legacy_facts', 'race_scripts']
LEAN_MODULES = ['Mistral.Props.C13', 'Mistral.Props.C13Legacy', 'Mistral.Props.C13Race']
MANIFEST = {
    'technique': 'Lean 4 theorems (induction over all step sequences, inductive invariants, a potential-function '
                 'argument for liveness) over DB-call-granularity models of the default scheduler protocol and of '
                 'the legacy scheduler; differential check of both models against 1..3 real DefaultScheduler / '
                 'LegacyScheduler objects stepped deterministically over in-memory sqlite',
    'text': 'DEFAULT scheduler - theorems over ALL step sequences (schedule in a transaction, commit, rollback, '
            'clock tick, dispatcher pop, CAS capture, invoke, delete, store poll select / capture / loop, crash) of '
            'any number of instances and jobs: never invoked before execute_at; a rolled-back or uncommitted job is '
            'never captured or invoked; two captures of one job are at least captured_job_timeout apart (CAS), hence '
            'at most one invocation when every capturer deletes within the timeout; a committed job is never lost '
            '(still in the store or already invoked); EVENTUAL INVOCATION under weak fairness over arbitrary '
            'interleavings (eventual_invocation): if the continuation of any reachable state contains k >= 1 complete '
            'store-poll passes of live instances that each start after max(execute_at+pickup_job_after, '
            'captured_at+captured_job_timeout) of the job, with k >= slack + abandoned poll loops (slack = live '
            'instances not holding the job, +1 while never captured; <= n+1), the job is invoked - whoever wins the '
            'CAS, whoever crashes, whatever is interleaved (pass_progress: every such pass invokes the job or uses up '
            'one unit of slack); has_scheduled_jobs is characterised exactly, "reports exactly the pending jobs" is '
            'refuted by a rolled-back job (has_jobs_exact_full_fails, known finding) and proved when the in-memory map '
            'is fresh; a job whose target cannot be imported (cfg.bad) is never invoked, is removed, and does '
            'not keep the jobs captured with it from running (unpreparable_never_invoked, '
            'unpreparable_head_does_not_block; eventual_invocation holds for every other job whatever cfg.bad is) - '
            'the model of the code after repo patch 18. LEGACY scheduler (scheduler_type=legacy, the default; 22 '
            'theorems in Props/C13Legacy over ALL step sequences of schedule / commit / rollback / tick / select / '
            'CAS-capture / per-call invoke / delete / crash, any batch_size): never invoked before execution_time; a '
            'rolled-back or uncommitted call is never captured or invoked; the processing flag is a CAS, captures of '
            'a call = its flag <= 1, hence AT MOST ONE invocation unconditionally; a committed call leaves the store '
            'only after it was invoked (or is un-preparable: logged and dropped); has_scheduled_jobs is exact; a call '
            'captured in one batch with an un-preparable call is invoked by that iteration '
            '(legacy_bad_target_spares_batch, the model of the code after repo patch 17; the former strand is a '
            'regression case); the crash-recovery / at-least-once clause is FALSE (legacy_crash_recovery_full_fails; '
            'for all histories: legacy_crashed_capture_never_runs - a call captured by an instance that dies is never '
            'run by anybody; replayed on the real LegacyScheduler, known finding) and proved for calls whose flag is '
            'clear (legacy_crash_recovery_partial). Both models are tied to the code by comparing the complete '
            'observation '
            '(rows, per-instance volatile state / iteration phase, event traces, has_scheduled_jobs answers) after '
            'every step of random and (thorough, default scheduler) exhaustively enumerated interleavings; the '
            'comparison operators, the CAS filters, the 1-second slack of the legacy select and the invoke-before-'
            'delete order are re-read from the sources on every run (Tie A). STATEMENT GRANULARITY (docs/RACE.md): the '
            'script of the first capture (_process_store_jobs: candidate read with captured_at IS NULL, '
            '_capture_scheduled_job -> update_scheduled_job = update_on_match on the captured_at READ) is REGENERATED by '
            'translate/race_scripts.py; Props.C13Race for ALL interference: capture_atomic (captured exactly when the row was '
            'an uncaptured candidate at the read and still shows the read value at the instant of the compare-and-swap), '
            'one_capturer (any number of schedulers holding the same copy: at most one captures); tie: race-capture stream '
            '(2-3 real capture passes nested at SQL-statement gaps vs Mistral.Race.runMany).',
    'note': 'DB semantics are modelled (transaction atomic, READ COMMITTED visibility emulated by the harness, '
            'update_on_match is a CAS); inside the capture transaction the read / compare-and-swap interleaving of the '
            'FIRST capture is exhibited at SQL-statement granularity (Mistral.Race); the recapture of an expired stamp '
            '(time comparison), the delete after invocation and the legacy scheduler are at DB-call granularity only; whole-second integer clock and integer pickup/timeout only (sub-second '
            'truncation outside the model); eventual invocation is proved for batch_size=None (the default) and its '
            'fairness hypothesis (complete passes of live instances) is an assumption about the thread scheduler, '
            'exercised on the real code by the closing phase of every case only; DB errors / retry_on_db_error, '
            'failing target functions (swallowed by the code) and thread scheduling inside one DB call are not '
            'modelled; Lean kernel + propext/Classical.choice/Quot.sound',
}
RULE = ('stream sched: a case is one step sequence (schedule-in-tx/commit/rollback/tick/pop/task/pollSelect/'
        'pollCapture/pollNext/crash, 25-45 random steps chosen from the steps enabled in the real state plus a '
        'closing phase that lets a live instance poll) on 1-3 real DefaultScheduler instances, 1-4 jobs, pickup 1-3, '
        'timeout 1-4, batch None/1/2, in ~40 % of the cases one or two job ordinals are un-preparable (scheduled '
        'with a func_name that cannot be imported; the model gets them as cfg.bad); non-trivial = at least one '
        'invocation happened AND at least one of: a CAS '
        'capture failed, a job was captured twice (recapture), an instance crashed with work in flight, a '
        'rolled-back job sat in a heap, a job was picked up by the store poll, an un-preparable job was processed '
        'while another job was behind it in the same poll queue; distinct = distinct canonical step '
        'sequence. Exhaustive stream: one case per (distinct model state, step) edge, non-trivial when the step '
        'changes the state. Stream legacy: one step sequence (schedule / scheduleBad (un-importable target) in a '
        'transaction, commit, rollback, tick, select, capture, invoke (one target call), delete, crash; 15-35 random '
        'steps among those enabled in the real state plus a closing phase in which the live instances finish and one '
        'keeps polling) on 1-3 real LegacyScheduler instances, up to 4 calls, batch None/1/2; non-trivial = an '
        'invocation happened AND (a CAS was lost, or an instance crashed with captured work, or two instances had '
        'selected at the same time, or a rolled-back call existed during a select), or a batch contained an '
        'un-preparable call and its other calls were invoked (or, on code without the fix, a valid call was '
        'stranded by the aborted batch).')
TRUSTED = [
    'harness/sched_driver.py: baton-stepped threads, fake condition variable/executor, timeutils clock override, '
    'emulation of READ COMMITTED visibility of the scheduling transaction (row hidden until the commit step)',
    'harness/sched_legacy.py: the select of _capture_calls is run once and aborted, and re-fed to the real '
    '_process_delayed_calls (session.merge(load=False) of the stale rows, no store access) so that another instance '
    'can act between select and CAS; baton thread parked inside each target call and before delete_calls',
    'SQLAlchemy/oslo.db/sqlite: a transaction is atomic, update_on_match is a compare-and-swap, ORDER BY ties are '
    'returned in an unspecified order (the harness feeds the model order back when only ties differ)',
    'sub-second behaviour (utc_now_sec truncation), float values of pickup_job_after/captured_job_timeout, and '
    'interleavings inside one DB call are outside the model',
    'liveness: eventual_invocation holds under its explicit fairness hypothesis (k complete store-poll passes of '
    'live instances after the time thresholds, k >= slack + abandoned loops, batch_size None); that real threads '
    'provide such passes is assumed, the closing phase of each case exercises it on the real code',
    'translators translate/sched_defaults.py, translate/sched_legacy_facts.py (AST reads, fail closed)',
]
ASSUMPTIONS = ['in-memory sqlite; scheduler threads never started (their bodies are stepped by the harness)']

KEYS = [1, 2]
PHANTOM = 'has-scheduled-jobs-reports-job-that-is-not-pending'


# ---------------------------------------------------------------------------------------------
# running one sequence on the real code, compared step by step with the model
# ---------------------------------------------------------------------------------------------

def mstep(step):
    """model encoding of a harness step (the commit/rollback fate is harness-only)"""
    if step[0] == 'crash':
        return list(step[:2])          # kill -9 or exception unwinding: the same model step
    return list(step[:5]) if step[0] == 'schedule' else list(step)


class Runner(object):
    def __init__(self, ctx, cfg, n, stream, compare=True, has_every_step=True):
        from harness import sched_driver as sd
        self.sd = sd
        self.ctx = ctx
        self.cfg = cfg
        self.bad = set(cfg.get('bad') or [])    # ordinals of the jobs whose target cannot be imported
        self.n = n
        self.stream = stream
        self.w = sd.World(cfg, n)
        self.steps = []
        self.compare = compare
        self.has_every_step = has_every_step
        self.agree = True
        self.hits = []            # monitor hits (what, signature)
        self.seen_inv = 0
        self.model = None
        self.mech = collections.Counter()

    def close(self):
        self.w.close()

    def replay_obj(self):
        return {'kind': 'sched', 'cfg': self.cfg, 'n': self.n, 'steps': self.steps}

    def model_state(self, steps=None):
        return self.ctx.driver().call('sched.run', {
            'cfg': self.cfg, 'n': self.n, 'steps': [mstep(s) for s in (steps or self.steps)],
            'keys': KEYS, 'all': False})

    def do(self, step, last=True):
        """Execute one step on the real code, compare with the model, run the monitors."""
        from vlib import core
        w = self.w
        self.steps.append(list(step))
        pre_tasks = sum(len(i.tasks) for i in w.insts)
        if step[0] == 'crash' and w.insts[step[1]].alive:
            inst = w.insts[step[1]]
            if any(a.label in ('invoke', 'delete') for a in inst.tasks.values()) or \
                    (inst.poll and inst.poll[0] == 'running'):
                self.mech['crash-with-captured-work'] += 1
        if step[0] == 'rollback':
            if any(j['tx'] == step[1] and j['state'] == 'uncommitted' and
                   any(i.alive and w.uuids[o] in i.sched.in_memory_jobs for i in w.insts)
                   for o, j in enumerate(w.jobs)):
                self.mech['rolled-back-job-in-memory'] += 1
        try:
            w.do(step)
        except Exception as e:   # the real code raised where the real thread would not survive either
            self.disagree(step, 'no exception', 'exception %s: %s' % (type(e).__name__, str(e)[:200]))
            return False
        if w.problems:
            self.disagree(step, 'interpretable behaviour', list(w.problems))
            w.problems = []
            return False
        if not self.compare and self.agree and step[0] == 'pollSelect':
            # a prefix step replayed without comparison (exhaustive stream): the choice among equal
            # execute_at still has to be the model's, as it was when this step was the compared one,
            # or every later state differs by that unspecified order only
            self._ties(step[1], self.model_state())
        if self.compare and self.agree:
            m = self.model_state()
            self.model = m
            if step[0] == 'pollSelect':
                self._ties(step[1], m)
            obs = w.observe(KEYS, with_has=self.has_every_step or last)
            mv = self.sd.model_view(m)
            if 'has' not in obs:
                mv.pop('has', None)
            if core.canon(obs) != core.canon(mv):
                diff = {k: {'model': mv.get(k), 'impl': obs.get(k)} for k in obs
                        if core.canon(obs[k]) != core.canon(mv.get(k))}
                self.disagree(step, {k: v['model'] for k, v in diff.items()},
                              {k: v['impl'] for k, v in diff.items()})
        self.monitor(last or self.has_every_step)
        return True

    def _ties(self, i, m):
        """ORDER BY execute_at leaves ties unspecified: if the real answer differs from the
        model's only by the order/choice among equal execute_at, continue with the model's."""
        w = self.w
        inst = w.insts[i]
        if not inst.alive or not inst.poll or inst.poll[0] != 'selected':
            return
        mp = m['insts'][i]['poll']
        if mp[0] != 'selected':
            return
        real = w.poll_cands(inst)
        want = mp[1]
        if real == want:
            return
        ea = {o: r[0] for o, r in enumerate(m['rows'])}
        elig = set(e[1] for e in m['eligible'])
        ok = (len(real) == len(want) and all(c[0] in elig for c in real) and
              [ea[c[0]] for c in real] == [ea[c[0]] for c in want] and
              all(c[1] == m['rows'][c[0]][1] for c in real))
        if ok:
            self.ctx.count(self.stream, 'select-tie-reordered')
            w.set_cands(i, [c[0] for c in want])

    def disagree(self, step, model, impl):
        if self.agree:
            self.agree = False
            self.ctx.disagree(self.stream, {'cfg': self.cfg, 'n': self.n, 'steps': list(self.steps),
                                            'at_step': len(self.steps) - 1, 'step': step}, model, impl)

    # ------------------------------------------------------------------ monitor
    def hit(self, what, sig):
        self.hits.append((what, sig))
        self.ctx.violation(what, self.replay_obj(), sig)

    def timely(self):
        """python reading of 'the scheduler that picked it up finishes it within the timeout'"""
        w = self.w
        for e in w.trace:
            if e[0] != 'captured':
                continue
            _, j, t, i = e
            if w.clock < t + self.cfg['timeout']:
                continue
            if not any(d[0] == 'deleted' and d[1] == j and d[3] == i and d[2] < t + self.cfg['timeout']
                       for d in w.trace):
                return False
        return True

    def monitor(self, with_has):
        w = self.w
        inv = [e for e in w.trace if e[0] == 'invoked']
        for e in inv[self.seen_inv:]:
            _, j, t, i = e
            if not isinstance(j, int) or j < 0 or j >= len(w.jobs):
                self.hit('a job that was never successfully scheduled was invoked (%r)' % (j,),
                         {'kind': 'unscheduled-job-invoked'})
                continue
            job = w.jobs[j]
            if j in self.bad:
                self.hit('job %d, whose target function cannot be imported, was invoked' % j,
                         {'kind': 'unpreparable-job-invoked'})
            if t < job['sched_at'] + job['ra']:
                self.hit('job %d scheduled at %d with run_after %d was invoked at %d'
                         % (j, job['sched_at'], job['ra'], t), {'kind': 'invoked-early'})
            if job['state'] != 'committed':
                self.hit('job %d whose transaction is %s was invoked' % (j, job['state']),
                         {'kind': 'job-of-%s-transaction-invoked' % job['state']})
        self.seen_inv = len(inv)
        cnt = collections.Counter(e[1] for e in inv)
        if any(c > 1 for c in cnt.values()) and self.timely():
            self.hit('job(s) %s invoked more than once although every capturer deleted within the timeout'
                     % [j for j, c in cnt.items() if c > 1], {'kind': 'invoked-twice-within-timeout'})
        rows = w.db_rows()
        for o, job in enumerate(w.jobs):
            # a job that cannot be prepared is logged and dropped (deleted without an invocation)
            if job['state'] == 'committed' and o not in rows and cnt.get(o, 0) == 0 and o not in self.bad:
                self.hit('committed job %d is neither in the store nor invoked' % o,
                         {'kind': 'committed-job-lost'})
        if with_has:
            for inst in w.insts:
                if not inst.alive:
                    continue
                for k in KEYS:
                    ans = w.has(inst.idx, k, False)
                    truth = any(r[3] == w.KEYS[k] and r[2] is None for r in rows.values())
                    undetermined = any(j['state'] == 'uncommitted' and j['key'] == k for j in w.jobs)
                    if ans is True and not truth and not undetermined:
                        causes = set()
                        for uuid, obj in inst.sched.in_memory_jobs.items():
                            o = w.ids.get(uuid)
                            if o is None or obj.key != w.KEYS[k] or obj.captured_at is not None:
                                continue
                            st = w.jobs[o]['state']
                            if st == 'rolledBack':
                                causes.add('rolled-back')
                            elif o in rows:
                                causes.add('captured-by-another-instance')
                            else:
                                causes.add('finished-by-another-instance')
                        for c in sorted(causes) or ['unknown']:
                            self.mech['has-phantom:' + c] += 1
                            self.hit('has_scheduled_jobs(key, processing=False) of instance %d is True but the '
                                     'store has no pending job with that key (in-memory job: %s)' % (inst.idx, c),
                                     {'kind': PHANTOM, 'cause': c})
                    elif ans is not True and truth:
                        self.hit('has_scheduled_jobs(key, processing=False) is %r although the store has a '
                                 'pending job with that key' % (ans,),
                                 {'kind': 'has-scheduled-jobs-misses-pending-job'})

    # ------------------------------------------------------------------ closing phase
    def closing(self):
        """Fairness: a live instance keeps polling after the timeouts; then every committed
        job must have run (at least once / crash recovery) and every committed job that cannot be
        prepared must be gone from the store (dropped, not retried for ever).  Every step goes
        through `do`: an exception inside the real poll loop ends that actor (poll back to idle),
        the number of passes is bounded."""
        w = self.w
        for tx in sorted(set(j['tx'] for j in w.jobs if j['state'] == 'uncommitted')):
            fate = [j['fate'] for j in w.jobs if j['tx'] == tx and j['state'] == 'uncommitted'][0]
            self.do(['commit' if fate == 'commit' else 'rollback', tx], last=False)
        live = [i.idx for i in w.insts if i.alive]
        if not live:
            return False
        i = live[0]
        big = max(self.cfg['pickup'], self.cfg['timeout']) + 4
        for _ in range(2 * len(w.jobs) + 2):
            self.do(['tick', big], last=False)
            inst = w.insts[i]
            if inst.poll and inst.poll[0] == 'selected':
                self.do(['pollCapture', i], last=False)
            guard = 0
            while inst.poll and inst.poll[0] == 'running' and guard < 40:
                self.do(['pollNext', i], last=False)
                guard += 1
            self.do(['pollSelect', i], last=False)
            self.do(['pollCapture', i], last=False)
            guard = 0
            while inst.poll and inst.poll[0] == 'running' and guard < 40:
                self.do(['pollNext', i], last=False)
                guard += 1
            cnt = collections.Counter(e[1] for e in w.trace if e[0] == 'invoked')
            rows = w.db_rows()
            if all((o not in rows) if o in self.bad else cnt.get(o, 0) >= 1
                   for o, j in enumerate(w.jobs) if j['state'] == 'committed'):
                break
        self.monitor(True)
        cnt = collections.Counter(e[1] for e in w.trace if e[0] == 'invoked')
        rows = w.db_rows()
        for o, j in enumerate(w.jobs):
            if j['state'] != 'committed':
                continue
            if o in self.bad:
                if o in rows:
                    self.hit('committed job %d, whose target function cannot be imported, is still in the store '
                             '(captured %d times) although live instance %d kept polling after the pickup and '
                             'capture timeouts: it is retried for ever'
                             % (o, sum(1 for e in w.trace if e[0] == 'captured' and e[1] == o), i),
                             {'kind': 'unpreparable-job-never-removed'})
            elif cnt.get(o, 0) == 0:
                self.hit('committed job %d was never invoked although live instance %d kept polling after '
                         'the pickup and capture timeouts' % (o, i), {'kind': 'committed-job-never-run'})
        return True

    def mechanisms(self):
        w = self.w
        m = collections.Counter(self.mech)
        m['capture-cas-failed'] += w.stats['capture-cas-failed']
        cap = collections.Counter(e[1] for e in w.trace if e[0] == 'captured')
        m['recapture'] += sum(1 for c in cap.values() if c > 1)
        m['invocation'] += sum(1 for e in w.trace if e[0] == 'invoked')
        m['bad-job-processed'] += w.stats['bad-job-processed']
        m['bad-job-processed-in-poll-queue'] += w.stats['bad-job-processed-in-poll-queue']
        # poll pickup: a capture by an instance that is not running the job from its own heap
        return m


# ---------------------------------------------------------------------------------------------
# random sequences
# ---------------------------------------------------------------------------------------------

def choose_step(rng, r, max_jobs, next_tx):
    w = r.w
    cand = []
    alive = [i for i in w.insts if i.alive]
    open_tx = {}
    for j in w.jobs:
        if j['state'] == 'uncommitted':
            open_tx[j['tx']] = j['fate']
    if alive and len(w.jobs) < max_jobs:
        for _ in range(2):
            i = rng.choice(alive).idx
            fate = 'commit' if rng.random() < 0.72 else 'rollback'
            same = [t for t, f in open_tx.items() if f == fate]
            tx = rng.choice(same) if same and rng.random() < 0.25 else next_tx
            cand.append((2.0, ['schedule', i, rng.choice([0, 0, 1, 1, 2, 3]), rng.choice(KEYS), tx, fate]))
    if alive:
        cand.append((0.25, ['scheduleBad', rng.choice(alive).idx]))
    for tx, fate in open_tx.items():
        cand.append((3.0, ['commit' if fate == 'commit' else 'rollback', tx]))
    cand.append((2.0, ['tick', rng.choice([1, 1, 1, 1, 2, 2, 3, r.cfg['pickup'] + 1, r.cfg['timeout']])]))
    for inst in w.insts:
        i = inst.idx
        if not inst.alive:
            if rng.random() < 0.1:
                cand.append((0.2, [rng.choice(['pop', 'pollSelect', 'pollNext', 'crash']), i]))
            continue
        cand.append((3.0 if inst.sched._heap else 0.2, ['pop', i]))
        for o in inst.tasks:
            cand.append((4.0, ['task', i, o]))
        if rng.random() < 0.1:
            cand.append((0.3, ['task', i, rng.randrange(0, max(1, len(w.jobs)))]))
        cand.append((1.0 if inst.poll is None else 0.15, ['pollSelect', i]))
        cand.append((4.0 if inst.poll and inst.poll[0] == 'selected' else 0.1, ['pollCapture', i]))
        cand.append((4.0 if inst.poll and inst.poll[0] == 'running' else 0.1, ['pollNext', i]))
        cand.append((0.12, ['crash', i] if rng.random() < 0.5 else ['crash', i, 1]))
    tot = sum(c[0] for c in cand)
    x = rng.random() * tot
    for wgt, st in cand:
        x -= wgt
        if x <= 0:
            return st
    return cand[-1][1]


def random_case(ctx, rng, stream='sched'):
    n = rng.choice([1, 2, 2, 2, 3, 3])
    cfg = {'pickup': rng.choice([1, 1, 2, 3]), 'timeout': rng.choice([1, 2, 2, 3, 4]),
           'batch': rng.choice([None, None, None, 1, 2])}
    max_jobs = rng.choice([1, 2, 3, 3, 4])
    # jobs that cannot be prepared (un-importable target): none in ~60 % of the cases, else one or two ordinals
    cfg['bad'] = [] if rng.random() < 0.6 else sorted(set(rng.randrange(max_jobs) for _ in range(rng.choice([1, 1, 2]))))
    length = rng.randrange(25, 46)
    r = Runner(ctx, cfg, n, stream)
    try:
        next_tx = 0
        for _ in range(length):
            st = choose_step(rng, r, max_jobs, next_tx)
            if st[0] == 'schedule' and st[4] == next_tx:
                next_tx += 1
            ctx.count(stream, 'step:' + st[0])
            r.do(st)
        closed = r.closing()
        mech = r.mechanisms()
        for k, v in mech.items():
            if v:
                ctx.count(stream, 'mech:' + k)
        ctx.count(stream, 'instances:%d' % n)
        ctx.count(stream, 'bad-jobs-configured:%d' % len(cfg['bad']))
        ctx.count(stream, 'closing:' + ('polled' if closed else 'nobody-alive'))
        picked = any(e[0] == 'captured' and r.w.jobs[e[1]]['inst'] != e[3] for e in r.w.trace)
        if picked:
            ctx.count(stream, 'mech:picked-up-by-other-instance')
        interesting = (mech['capture-cas-failed'] or mech['recapture'] or mech['crash-with-captured-work'] or
                       mech['rolled-back-job-in-memory'] or picked or mech['bad-job-processed-in-poll-queue'])
        ctx.evaluated(stream, [cfg, n, r.steps], nontrivial=bool(mech['invocation'] and interesting))
        if r.agree and ctx.rng.random() < 0.05:
            ctx.sample({'cfg': cfg, 'n': n, 'steps': r.steps[:14], 'trace': r.w.trace[:8]})
        return r
    finally:
        r.close()


# ---------------------------------------------------------------------------------------------
# exhaustive enumeration of interleavings (breadth first over distinct model states)
# ---------------------------------------------------------------------------------------------

def alphabet(m, conf):
    """every step that is meaningful in model state m under the bounds of conf"""
    out = []
    rows = m['rows']
    insts = m['insts']
    alive = [i for i, x in enumerate(insts) if x['alive']]
    if len(rows) < conf['jobs']:
        for i in alive:
            if i in conf['sched_insts']:
                for ra in conf['ra']:
                    for fate in conf['fates']:
                        tx = 2 * len(rows) + (0 if fate == 'commit' else 1)
                        out.append(['schedule', i, ra, 1, tx, fate])
    for tx in sorted(set(int(r[3].split(':')[1]) for r in rows if r[3].startswith('uncommitted'))):
        out.append(['commit' if tx % 2 == 0 else 'rollback', tx])
    if m['clock'] < conf['tmax']:
        out.append(['tick', 1])
    for i in alive:
        x = insts[i]
        if x['heap']:
            out.append(['pop', i])
        for t in x['tasks']:
            out.append(['task', i, t[0]])
        if x['poll'][0] == 'idle':
            if i in conf['poll_insts']:
                out.append(['pollSelect', i])
        elif x['poll'][0] == 'selected':
            out.append(['pollCapture', i])
        else:
            out.append(['pollNext', i])
        if len(insts) - len(alive) < conf['crashes']:
            out.append(['crash', i])
    return out


def state_key(m):
    from vlib import core
    return core.canon({k: m[k] for k in ('clock', 'rows', 'insts', 'trace')})


def exhaustive(ctx, conf, deadline, stream='sched-exhaustive'):
    cfg, n = conf['cfg'], conf['n']
    drv = ctx.driver()

    def model(steps):
        return drv.call('sched.run', {'cfg': cfg, 'n': n, 'steps': [mstep(s) for s in steps],
                                      'keys': KEYS, 'all': False})
    m0 = model([])
    seen = {state_key(m0)}
    frontier = [([], m0)]
    runs = 0
    complete_depth = 0
    for depth in range(conf['depth']):
        nxt = []
        for path, m in frontier:
            for st in alphabet(m, conf):
                if time.time() > deadline or runs >= conf['max_runs']:
                    ctx.count(stream, '%s:stopped-at-depth-%d' % (conf['name'], depth))
                    ctx.count(stream, '%s:runs' % conf['name'], runs)
                    return runs, complete_depth
                steps = path + [st]
                m2 = model(steps)
                k2 = state_key(m2)
                changed = k2 != state_key(m)
                # the real code on the same sequence
                r = Runner(ctx, cfg, n, stream, has_every_step=False)
                try:
                    for idx, s in enumerate(steps):
                        last = idx == len(steps) - 1
                        r.compare = last          # prefix was compared when it was the last step
                        r.do(s, last=last)
                finally:
                    r.close()
                runs += 1
                ctx.evaluated(stream, [conf['name'], steps], nontrivial=changed)
                ctx.count(stream, 'step:' + st[0])
                if k2 not in seen:
                    seen.add(k2)
                    nxt.append((steps, m2))
        complete_depth = depth + 1
        frontier = nxt
        ctx.count(stream, '%s:states-at-depth-%d' % (conf['name'], depth + 1), len(nxt))
        if not nxt:
            break
    ctx.count(stream, '%s:runs' % conf['name'], runs)
    ctx.count(stream, '%s:complete-depth' % conf['name'], complete_depth)
    return runs, complete_depth


EXH = [
    {'name': '2inst-1job', 'cfg': {'pickup': 1, 'timeout': 2, 'batch': None}, 'n': 2, 'jobs': 1, 'ra': [0, 1],
     'fates': ['commit', 'rollback'], 'sched_insts': [0], 'poll_insts': [0, 1], 'tmax': 5, 'crashes': 1,
     'depth': 12, 'max_runs': 22000},
    {'name': '2inst-2jobs', 'cfg': {'pickup': 1, 'timeout': 1, 'batch': None}, 'n': 2, 'jobs': 2, 'ra': [0],
     'fates': ['commit'], 'sched_insts': [0, 1], 'poll_insts': [1], 'tmax': 3, 'crashes': 1,
     'depth': 10, 'max_runs': 22000},
    {'name': '1inst-2jobs-batch1', 'cfg': {'pickup': 1, 'timeout': 1, 'batch': 1}, 'n': 1, 'jobs': 2, 'ra': [0, 1],
     'fates': ['commit', 'rollback'], 'sched_insts': [0], 'poll_insts': [0], 'tmax': 4, 'crashes': 0,
     'depth': 10, 'max_runs': 8000},
    # job 0 cannot be prepared: dropped by the dispatcher task of instance 0 or by the store poll of instance 1
    {'name': '2inst-2jobs-bad0', 'cfg': {'pickup': 1, 'timeout': 1, 'batch': None, 'bad': [0]}, 'n': 2, 'jobs': 2,
     'ra': [0], 'fates': ['commit'], 'sched_insts': [0], 'poll_insts': [1], 'tmax': 3, 'crashes': 1,
     'depth': 10, 'max_runs': 8000},
]

# the counter-witness of Props/C13 has_jobs_exact_full_fails, replayed on the real code first
CORPUS = [
    {'cfg': {'pickup': 1, 'timeout': 1, 'batch': None}, 'n': 1,
     'steps': [['schedule', 0, 1, 1, 0, 'rollback'], ['rollback', 0]]},
    # crash between capture and delete, another instance recovers (crash_recovery example)
    {'cfg': {'pickup': 2, 'timeout': 3, 'batch': None}, 'n': 2,
     'steps': [['schedule', 0, 1, 1, 0, 'commit'], ['commit', 0], ['tick', 1], ['pop', 0], ['task', 0, 0],
               ['crash', 0], ['tick', 4], ['pollSelect', 1], ['pollCapture', 1], ['pollNext', 1], ['pollNext', 1]]},
    # the same crash as exception unwinding (SystemExit / GreenletExit: the finally clauses of the dying worker
    # run for real): the captured row must survive, another instance recovers it after the capture timeout
    {'cfg': {'pickup': 2, 'timeout': 3, 'batch': None}, 'n': 2,
     'steps': [['schedule', 0, 1, 1, 0, 'commit'], ['commit', 0], ['tick', 1], ['pop', 0], ['task', 0, 0],
               ['crash', 0, 1], ['tick', 4], ['pollSelect', 1], ['pollCapture', 1], ['pollNext', 1], ['pollNext', 1]]},
    # ... and unwinding out of the store-poll loop of the instance that captured it
    {'cfg': {'pickup': 1, 'timeout': 2, 'batch': None}, 'n': 3,
     'steps': [['schedule', 0, 0, 1, 0, 'commit'], ['commit', 0], ['crash', 0], ['tick', 2], ['pollSelect', 1],
               ['pollCapture', 1], ['crash', 1, 1], ['tick', 3], ['pollSelect', 2], ['pollCapture', 2],
               ['pollNext', 2], ['pollNext', 2]]},
    # two pollers select the same job, only one CAS wins
    {'cfg': {'pickup': 1, 'timeout': 2, 'batch': None}, 'n': 3,
     'steps': [['schedule', 0, 0, 1, 0, 'commit'], ['commit', 0], ['crash', 0], ['tick', 2], ['pollSelect', 1],
               ['pollSelect', 2], ['pollCapture', 2], ['pollCapture', 1], ['pollNext', 2], ['pollNext', 2]]},
    # starvation witness (patch 18): job 0 cannot be prepared, job 1 is valid, both are picked up by ONE store
    # poll of instance 1: job 0 is logged and deleted without an invocation, job 1 must be invoked (without the
    # patch _prepare_job raises out of _process_store_jobs, job 0 is recaptured in front of job 1 for ever)
    {'cfg': {'pickup': 1, 'timeout': 2, 'batch': None, 'bad': [0]}, 'n': 2,
     'steps': [['schedule', 0, 0, 1, 0, 'commit'], ['schedule', 0, 0, 1, 1, 'commit'], ['commit', 0], ['commit', 1],
               ['crash', 0], ['tick', 2], ['pollSelect', 1], ['pollCapture', 1], ['pollNext', 1], ['pollNext', 1],
               ['pollNext', 1], ['pollNext', 1]]},
    # the same without a tie in ORDER BY execute_at (the model orders ties its own way and the harness follows it):
    # the un-preparable job 0 is guaranteed to be in front of job 1 in the poll queue
    {'cfg': {'pickup': 1, 'timeout': 2, 'batch': None, 'bad': [0]}, 'n': 2,
     'steps': [['schedule', 0, 0, 1, 0, 'commit'], ['schedule', 0, 1, 1, 1, 'commit'], ['commit', 0], ['commit', 1],
               ['crash', 0], ['tick', 3], ['pollSelect', 1], ['pollCapture', 1], ['pollNext', 1], ['pollNext', 1],
               ['pollNext', 1], ['pollNext', 1]]},
    # the same two jobs run from the heap of the instance that scheduled them (_process_memory_job)
    {'cfg': {'pickup': 1, 'timeout': 2, 'batch': None, 'bad': [0]}, 'n': 1,
     'steps': [['schedule', 0, 0, 1, 0, 'commit'], ['schedule', 0, 0, 1, 1, 'commit'], ['commit', 0], ['commit', 1],
               ['pop', 0], ['pop', 0], ['task', 0, 0], ['task', 0, 0], ['task', 0, 0],
               ['task', 0, 1], ['task', 0, 1], ['task', 0, 1]]},
]


def run_fixed(ctx, case, stream):
    r = Runner(ctx, case['cfg'], case['n'], stream)
    try:
        for s in case['steps']:
            r.do(s)
        r.closing()
        ctx.evaluated(stream, [case['cfg'], case['n'], case['steps']], nontrivial=True)
        return r
    finally:
        r.close()


def correspond(ctx):
    t0 = time.time()
    for case in CORPUS:
        run_fixed(ctx, case, 'sched')
    nseq = ctx.n(150, 4000)
    budget = ctx.n(75, 9 * 60)
    done = 0
    for k in range(nseq):
        if time.time() - t0 > budget:
            break
        random_case(ctx, ctx.rng)
        done += 1
    ctx.count('sched', 'sequences', done)
    from harness import sched_legacy
    sched_legacy.correspond(ctx)
    # statement granularity: 2-3 real capture passes nested at SQL-statement gaps (own process: EngineWorld)
    from vlib import par
    par.run_parallel(ctx, 'harness.race_driver', 'run_chunk', [{'family': 'capture'}])
    if ctx.thorough():
        deadline = time.time() + 13 * 60
        per = (deadline - time.time()) / len(EXH)
        for k, conf in enumerate(EXH):
            exhaustive(ctx, conf, min(deadline, time.time() + per * 1.0 + 5))
        ctx.cov['exhaustive'] = True


def search(ctx):
    """Failing-input search after a broken obligation / correspondence: the monitors are
    independent of the model, so widen the population they see: the small-configuration
    interleavings are enumerated exhaustively and more random sequences are run."""
    t0 = time.time()
    before = len(ctx.violations)
    from vlib import par
    par.run_parallel(ctx, 'harness.race_driver', 'run_chunk', [{'family': 'capture'}])
    if len(ctx.violations) > before:
        return
    small = dict(EXH[0], depth=9, max_runs=1500, name='search-2inst-1job')
    exhaustive(ctx, small, time.time() + 60, stream='search')
    if len(ctx.violations) > before:
        return
    small2 = dict(EXH[1], depth=8, max_runs=800, name='search-2inst-2jobs')
    exhaustive(ctx, small2, time.time() + 35, stream='search')
    # the legacy scheduler: its fixed corpus again and a wider random population
    from harness import sched_legacy
    if len(ctx.violations) == before:
        for case in sched_legacy.CORPUS:
            sched_legacy.run_fixed(ctx, case, stream='search-legacy')
    k = 0
    while len(ctx.violations) == before and time.time() - t0 < 140 and k < 150:
        sched_legacy.random_case(ctx, ctx.rng, stream='search-legacy')
        k += 1
    k = 0
    while len(ctx.violations) == before and time.time() - t0 < 190 and k < 600:
        random_case(ctx, ctx.rng, stream='search')
        k += 1


def replay(ctx, rep):
    r = rep['replay']
    if r.get('kind') == 'race':
        from harness import race_driver
        n0 = len(ctx.violations)
        race_driver.run_chunk(ctx, 'capture')
        print('replay: race-capture stream -> %d hit(s); recorded: %s' % (
            len(ctx.violations) - n0, {k: r[k] for k in r if k != 'real'}))
        return
    if r.get('kind') == 'legacy':
        from harness import sched_legacy
        return sched_legacy.replay(ctx, rep)
    run = Runner(ctx, r['cfg'], r['n'], 'replay', compare=False)
    try:
        for s in r['steps']:
            run.do(s)
        run.closing()      # the liveness hits (never run / never removed) are raised after the closing phase
        print('replay: %d steps (+closing phase) on the real DefaultScheduler, un-preparable jobs %s; trace=%s; '
              'monitor hits=%s' % (len(r['steps']), sorted(run.bad), run.w.trace, [h[0] for h in run.hits]))
    finally:
        run.close()
