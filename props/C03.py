"""C03 — execution lifecycle is respected and finished results are final."""
GEN = ['states', 'race_scripts']
MANIFEST = {
    'technique': 'Lean 4 theorems over the regenerated transition table, the lifecycle guard model (exhaustively '
                 'compared with the real objects) and the engine model (step-by-step refinement check)',
    'text': 'Tie A: _VALID_TRANSITIONS / is_completed / ... regenerated from states.py on every run; '
            'table_within_documented, table_success_terminal (decide over the generated table). Guard model '
            'Mistral.Lifecycle: wf_moves_ok, success_absorbing_wf, finished_wf_frozen, action_accepted_once + '
            'action_results_fold (over any sequence of result deliveries at most one is accepted), '
            'task_success_final_partial and task_success_final_full_fails (Task.defer resets a finished join: known '
            'finding). Engine level (Mistral.Engine): wf_moves_ok_engine, wf_moves_ok_reachable (induction over every '
            'event history), success_never_left_engine. ENGINE COMMANDS INCLUDED (Mistral.Props.C03X over Mistral.Engine.stepX, '
            'every order of sibling commands): wf_moves_okX (every event changes the workflow state of a started execution by a '
            'CHAIN of documented moves: pause / fail / succeed commands in on-clauses and commands restored from the backlog on '
            'resume are further compare-and-swaps inside the same transaction), started_preservedX, wf_moves_okX_reachable '
            '(every history), final_never_leftX / success_never_leftX (no event, no backlog command leaves a final state). Ties: lifecycle stream = EVERY state x EVERY operation on the '
            'real workflow/task/action objects (exhaustive, ~280 cases); core stream; engine stream with operator '
            'commands (monitors: every committed workflow state change is a documented move, SUCCESS tasks never '
            'change, accepted flag rises at most once, finished executions frozen). STATEMENT GRANULARITY (below one '
            'transaction; docs/RACE.md): Model Mistral.Race (one row under READ COMMITTED: reads, pending ORM writes with '
            'dirty check, compare-and-swap, conditional delete, row lock; an arbitrary interferer function in EVERY gap '
            'between two statements). Scripts REGENERATED from workflows.py / workflow_handler.py / db api / models.py by '
            'translate/race_scripts.py on every run: _succeed_workflow, _fail_workflow, _cancel_workflow with set_state and '
            'update_workflow_execution_state inlined, and the completion-check transaction (stale guards, expire_all, '
            're-read, force-fail handler). Theorems for ALL interference schedules (Props.C03Race, C03RaceCac): '
            'succeed/fail/cancel_atomic (the script changes nothing, or installs state+output+state_info+accepted together '
            'at the instant of its compare-and-swap on a row whose state it had read), fail/cancel_keeps_finished (a row '
            'finished at that instant keeps state, state_info, output; nothing is reported), '
            'succeed_keeps_finished (full since repo fix ce9b9520), *_state_output_together, cac_succeed_atomic, '
            'cac_succeed_keeps_finished (the race of the completion check with a concurrent stop(SUCCESS) found here is '
            'closed by repo fix ce9b9520: full theorem) and cac_one_party (full since repo fix 3b5c318a repeats the paused-or-'
            'completed guard after expire_all; before it an execution PAUSED during its completion check was force-failed '
            'to ERROR: _full_fails witness kept as regression example). Tie B: race-wf stream = the '
            'REAL completion / stop transactions with the REAL stop / pause / second completion check of another session '
            'committed at every pre-lock SQL statement (statement tap), final row + write statements + exception equal '
            'Mistral.Race.runWith on the generated script; monitor: a finished row is never altered, (state, output) come '
            'from one party. ACTION RESULT ACCEPTANCE (Props.C03RaceAction over the regenerated script of '
            'on_action_complete -> RegularAction.complete, which since repo fix fdb9cc00 accepts the result through '
            'update_action_execution_state = update_on_match on the state read): action_complete_atomic, action_accept_once '
            '(a completed action execution is never touched, nothing is handed to the task; before the patch this was '
            '_full_fails: two results handled concurrently were both accepted), action_state_output_together; tie: '
            'race-action stream. TASK COMPLETION (Props.C03RaceTask over the regenerated script of Task.complete with '
            'Task.set_state inlined; RegularTask.on_action_complete ends in it for action and child-workflow results): '
            'task_complete_atomic, task_keeps_finished (a task completed at the instant of the compare-and-swap keeps '
            'state, state_info, next_tasks, processed), dispatch_only_by_winner, dispatch_at_most_once (of any number of '
            'racing completions of one task at most one runs the completion logic); tie: race-task stream (real '
            'on_action_complete vs a real complete_task(ERROR) of another session; the same child-workflow result '
            'delivered by two engines).',
    'note': 'Monitors observe committed snapshots after each event (one transaction may contain two compare-and-swaps: '
            'PAUSED->RUNNING->final on resume, modelled as a two-move path). Rerun is modelled in C12. Sub-transaction '
            'interleavings between processes ARE exhibited, at SQL-statement granularity, for the workflow row under '
            '_succeed_workflow / _fail_workflow / _cancel_workflow / Workflow.set_state (stop_workflow with any state, '
            'force-fail), the completion-check transaction, and the action row under RegularAction.complete, against '
            'the task row under Task.complete / Task.set_state (completed, non-skipped target state), against arbitrary '
            'concurrent transactions on that row. They are still NOT exhibited for: Task.defer / Task.update / '
            'skip, policies (DELAYED), WithItemsTask.on_action_complete (named lock), pause / resume scripts, transactions over several rows (stop recursion into sub-workflows, '
            'task and action rows), named locks, scheduler capture. Positions after the script\'s first successful write '
            'are the model\'s row-lock rule only (in-memory sqlite cannot make a second writer wait); the ORM dirty check '
            'and READ COMMITTED statement semantics are modelled and compared on sqlite, not on MySQL/PostgreSQL.',
}
RULE = ('stream lifecycle: EVERY state x EVERY operation (start/pause/resume/stop(9 targets)/complete(3 verdicts)/rerun '
        'on workflows; complete/update/defer/force-fail on tasks; result delivery on actions) on the real objects, '
        'exhaustive; stream engine: generated programs with operator commands injected at random points; '
        'non-trivial = an operation whose guard matters (all lifecycle cases) / a trace with an operator command; '
        'stream race-wf: 7 scenarios (completion check with verdict success/error/cancel, stop_workflow '
        'SUCCESS/ERROR/CANCELLED, plain resume_workflow - monitor only) x 5 interferers (stop CANCELLED/ERROR/SUCCESS, pause, second completion check) x every '
        'pre-lock significant SQL statement of the script (exhaustive, 86 cases); non-trivial = the interferer changed the row; '
        'stream race-action: 3 pairs of results for one action execution x the pre-lock statements of on_action_complete; '
        'stream race-task: 2 scenarios (action result vs complete_task(ERROR); the same child result twice) x the pre-lock '
        'statements on the task row')
TRUSTED = ['translate/states.py (AST read of states.py, fail closed)', 'harness seams replaced by recorders',
           'translate/race_scripts.py (AST, fail closed); harness/race_driver.py: SQL statement tap, thread-local swap for the '
           'second session; row-lock semantics (a second writer waits until commit) modelled, not executed on sqlite']
LEAN_MODULES = ['Mistral.Props.C03', 'Mistral.Props.C03Race', 'Mistral.Props.C03RaceCac', 'Mistral.Props.C03RaceAction',
                'Mistral.Props.C03RaceTask', 'Mistral.Props.C03X']
RACE_CHUNKS = [{'family': 'wf', 'scenarios': ['cacSucceed', 'stopCancel']},
               {'family': 'wf', 'scenarios': ['cacFail', 'stopSuccess']},
               {'family': 'wf', 'scenarios': ['cacCancel', 'stopError', 'resume']},
               {'family': 'action'}, {'family': 'task'}]


def correspond(ctx):
    from harness import engine_driver, lifecycle_stream
    w = engine_driver.EngineWorld(seed=ctx.seed)
    lifecycle_stream.run(ctx, w)
    from vlib import par
    # statement granularity: the REAL completion transactions with the REAL stop / pause / second
    # completion check of another process committed at every pre-lock statement gap (SQL tap)
    par.run_parallel(ctx, 'harness.race_driver', 'run_chunk', RACE_CHUNKS)
    par.run_parallel(ctx, 'harness.engine_stream', 'run_chunk',
                     [{'n_programs': ctx.n(8, 60), 'props': ['C03'], 'mode': 'plain'}] * 5 +
                     [{'n_programs': ctx.n(8, 60), 'props': ['C03'], 'mode': 'ops'}] * 9)
    par.run_parallel(ctx, 'harness.core_stream', 'run_chunk', [{'n_programs': ctx.n(8, 50), 'mode': 'mixed'}] * 14)
    # (thorough populations 250 / 200 per chunk needed > 10 CPU-hours: the 60-minute budget was exceeded; 60 / 50
    #  keep the tier at about 3 CPU-hours)


def search(ctx):
    """failing-input search: (a broken statement-granularity theorem / translator refusal) every scenario x
    interferer x gap of the race streams on the real code again (their monitors do not depend on the generated
    scripts); the disagreeing cases run to the end under the statement monitors, then a wider population of runs
    with operator commands"""
    from harness import engine_stream
    from vlib import par
    par.run_parallel(ctx, 'harness.race_driver', 'run_chunk', RACE_CHUNKS)
    if ctx.violations:
        return
    engine_stream.search_from_core(ctx, ['C03'], 'plain')
    if ctx.violations:
        return
    par.run_parallel(ctx, 'harness.engine_stream', 'run_chunk',
                     [{'n_programs': 30, 'props': ['C03'], 'mode': 'ops', 'p_err': 0.2}] * 14)


def replay(ctx, rep):
    r = rep.get('replay', rep)
    if isinstance(r, dict) and r.get('kind') == 'race':
        import json
        from harness import race_driver
        n0 = len(ctx.violations) + len(ctx.known_hit)
        if r.get('family') in ('action', 'task'):
            race_driver.run_chunk(ctx, r['family'])
        else:
            race_driver.run_chunk(ctx, 'wf', [r['scenario']], [r['interferer']])
        print('replay: %s x %s at every gap -> %d hit(s); recorded: position %s (%s)' % (
            r.get('scenario', r.get('script')), r['interferer'], len(ctx.violations) + len(ctx.known_hit) - n0,
            r.get('position'), r.get('statement')))
        for v in ctx.violations:
            print('  ', v['what'][:300], json.dumps(v['signature']))
        return
    from harness import engine_stream
    engine_stream.replay(ctx, rep, ['C03'])
