"""C03 — execution lifecycle is respected and finished results are final."""
GEN = ['states']
MANIFEST = {'technique': 'WORK IN PROGRESS', 'text': 'WORK IN PROGRESS', 'note': ''}
RULE = ('stream lifecycle: EVERY state x EVERY operation (start/pause/resume/stop(9 targets)/complete(3 verdicts)/rerun '
        'on workflows; complete/update/defer/force-fail on tasks; result delivery on actions) on the real objects, '
        'exhaustive; stream engine: generated programs with operator commands injected at random points; '
        'non-trivial = an operation whose guard matters (all lifecycle cases) / a trace with an operator command')
TRUSTED = []


def correspond(ctx):
    from harness import engine_driver, lifecycle_stream
    w = engine_driver.EngineWorld(seed=ctx.seed)
    lifecycle_stream.run(ctx, w)
    from vlib import par
    par.run_parallel(ctx, 'harness.engine_stream', 'run_chunk',
                     [{'n_programs': ctx.n(15, 400), 'props': ['C03'], 'mode': 'plain'}] * 14)


def search(ctx):
    pass


def replay(ctx, rep):
    pass
