"""C03 — execution lifecycle is respected and finished results are final."""
GEN = ['states']
MANIFEST = {
    'technique': 'Lean 4 theorems over the regenerated transition table, the lifecycle guard model (exhaustively '
                 'compared with the real objects) and the engine model (step-by-step refinement check)',
    'text': 'Tie A: _VALID_TRANSITIONS / is_completed / ... regenerated from states.py on every run; '
            'table_within_documented, table_success_terminal (decide over the generated table). Guard model '
            'Mistral.Lifecycle: wf_moves_ok, success_absorbing_wf, finished_wf_frozen, action_accepted_once + '
            'action_results_fold (over any sequence of result deliveries at most one is accepted), '
            'task_success_final_partial and task_success_final_full_fails (Task.defer resets a finished join: known '
            'finding). Engine level (Mistral.Engine): wf_moves_ok_engine, wf_moves_ok_reachable (induction over every '
            'event history), success_never_left_engine. Ties: lifecycle stream = EVERY state x EVERY operation on the '
            'real workflow/task/action objects (exhaustive, ~280 cases); core stream; engine stream with operator '
            'commands (monitors: every committed workflow state change is a documented move, SUCCESS tasks never '
            'change, accepted flag rises at most once, finished executions frozen).',
    'note': 'Monitors observe committed snapshots after each event (one transaction may contain two compare-and-swaps: '
            'PAUSED->RUNNING->final on resume, modelled as a two-move path). Rerun is modelled in C12.',
}
RULE = ('stream lifecycle: EVERY state x EVERY operation (start/pause/resume/stop(9 targets)/complete(3 verdicts)/rerun '
        'on workflows; complete/update/defer/force-fail on tasks; result delivery on actions) on the real objects, '
        'exhaustive; stream engine: generated programs with operator commands injected at random points; '
        'non-trivial = an operation whose guard matters (all lifecycle cases) / a trace with an operator command')
TRUSTED = ['translate/states.py (AST read of states.py, fail closed)', 'harness seams replaced by recorders']
LEAN_MODULES = ['Mistral.Props.C03']


def correspond(ctx):
    from harness import engine_driver, lifecycle_stream
    w = engine_driver.EngineWorld(seed=ctx.seed)
    lifecycle_stream.run(ctx, w)
    from vlib import par
    par.run_parallel(ctx, 'harness.engine_stream', 'run_chunk',
                     [{'n_programs': ctx.n(8, 250), 'props': ['C03'], 'mode': 'plain'}] * 5 +
                     [{'n_programs': ctx.n(8, 250), 'props': ['C03'], 'mode': 'ops'}] * 9)
    par.run_parallel(ctx, 'harness.core_stream', 'run_chunk', [{'n_programs': ctx.n(8, 200), 'mode': 'mixed'}] * 14)


def search(ctx):
    """failing-input search: the disagreeing cases run to the end under the statement monitors, then a wider
    population of runs with operator commands"""
    from harness import engine_stream
    from vlib import par
    engine_stream.search_from_core(ctx, ['C03'], 'plain')
    if ctx.violations:
        return
    par.run_parallel(ctx, 'harness.engine_stream', 'run_chunk',
                     [{'n_programs': 30, 'props': ['C03'], 'mode': 'ops', 'p_err': 0.2}] * 14)


def replay(ctx, rep):
    from harness import engine_stream
    engine_stream.replay(ctx, rep, ['C03'])
