"""C11 — stop and cancel end the whole execution tree; late results change nothing."""
import json

GEN = ['states', 'race_scripts']
MANIFEST = {
    'technique': 'Lean 4 invariants over two executable models tied to the real engine step by step: the engine core of '
                 'ONE workflow (Mistral.Engine) and the execution TREE (Mistral.Tree: workflow executions linked to the '
                 'task executions that started them, with the transactions of stop / cancel incl. the recursion into '
                 'sub-workflows, the child-result hand-off to plain and with-items parent tasks, and every post-commit / '
                 'RPC / scheduler delivery in between) + exhaustive lifecycle table check + trace monitors on generated '
                 'stop histories',
    'text': 'Single workflow (Mistral.Props.C11 over Mistral.Engine): finished_is_inert, stop_sets_requested_state, '
            'stop_only_requested (with engine commands: Mistral.Props.C11Cmd.stop_sets_requested_stateX, stop_only_requestedX, stopped_with_backlog_inert). ENGINE COMMANDS (Mistral.Props.C11X over Mistral.Engine.stepX, Model/EngineX.lean: fail / succeed / pause / noop in on-clauses, dispatcher._process_commands / _rearrange_commands incl. the sort, the command BACKLOG, RunExistingTask commands; tied by the core stream whose programs carry engine commands): no_dispatch_into_completed (EVERY world, every event: in a completed workflow no task execution is created and the state does not change, ALSO NOT THROUGH THE BACKLOG - a backlog polled there is dropped), no_dispatch_into_completed_reachable, pause_command_saves_rest (the commands after a `pause` command are saved, nothing of them is created), backlog_untouched_while_paused (never lost), backlog_restored_once (when polled in a RUNNING workflow each saved task command is dispatched exactly once: one execution + one start request each, backlog empty afterwards), restored_join_defers (since repo_patches/32 a join command restored from the backlog keeps wait / unique_key and defers to the WAITING execution of the join like a fresh one; was the finding join-created-idle). '
            'Tree (Mistral.Props.C11Tree over Mistral.Tree, ALL definitions / trees / event '
            'histories, by an invariant `Good` every transaction satisfies): stop_holds_requested_state (a RUNNING '
            'execution anywhere in the tree takes the requested state and the message in the transaction of the request); '
            'cancel_reached (everything the recursion of stop_workflow(CANCELLED) reaches is CANCELLED with the message in '
            'the SAME transaction and registers exactly one more result message), cancel_subtree_partial (in a tree where '
            'no finished execution has an unfinished child EVERY unfinished descendant is cancelled) and '
            'cancel_subtree_full_fails (the recursion skips finished children: known finding); finished_is_inert (state, '
            'output, accepted flag of a finished execution never change under ANY continuation: late results, start '
            'messages, child results, further stops); message_kept_partial (ERROR / CANCELLED keep state_info and are never '
            'reported again) and message_kept_full_fails (second stop(SUCCESS): known finding); no_new_task_in_finished '
            '(no task row is ever created in a finished execution), no_new_task_in_cancelled_nodes_partial and '
            'no_new_task_below_cancelled_full_fails (run_task ignores the workflow state: a sub-workflow is started below a '
            'cancelled workflow: known finding); reported_once (a FAILED / CANCELLED sub-workflow has exactly one result '
            'message registered in every reachable state, an unfinished one none) and reported_once_full_fails (a SUCCESS '
            'child re-stopped). Ties: core stream (Mistral.Engine = real after EVERY event), tree stream (Mistral.Tree = '
            'real after EVERY event on generated trees: all workflow and task execution rows incl. state_info / output '
            'class / accepted / registered and processed result messages / with-items bookkeeping, and the multiset of '
            'pending deliveries), lifecycle stream (exhaustive). The `_full_fails` witnesses are replayed on the real '
            'engine on every run (corpus/C11/tree_*.json). STATEMENT GRANULARITY ("late results do not change its state or '
            'output" below one transaction; docs/RACE.md): Mistral.Props.C03Race / C03RaceCac over the scripts REGENERATED '
            'from _succeed_workflow / _fail_workflow / _cancel_workflow / set_state / the completion-check transaction, for '
            'ALL interference schedules (an arbitrary committed transaction in every gap between two statements): '
            '*_atomic, fail/cancel_keeps_finished, succeed_keeps_finished (full since repo fix ce9b9520), *_state_output_together, '
            'cac_succeed_keeps_finished (full since repo fix ce9b9520), cac_one_party (full since repo fix 3b5c318a); tie: '
            'race-wf stream (real stop / pause / completion check of a second session committed at every pre-lock SQL '
            'statement of the real completion / stop transaction, compared with Mistral.Race.runWith; monitor on the rows).',
    'note': 'One event = one committed transaction (in-process atomicity) in Mistral.Engine / Mistral.Tree; multi-process '
            'sub-transaction races ARE exhibited at SQL-statement granularity for the workflow row under the stop / '
            'completion scripts (_succeed/_fail/_cancel_workflow, set_state, completion check with force-fail handler) '
            'against arbitrary concurrent transactions; NOT for the recursion of stop(CANCELLED) into sub-workflow rows, '
            'task / action rows (Task.set_state, result acceptance), pause / resume, named locks. Mistral.Tree has no joins / data flow / policies / pause / rerun (Mistral.Engine and the other '
            'properties cover those for a single workflow). "The parent task of a cancelled child becomes CANCELLED" and '
            '"exactly one result message is PROCESSED once everything pending is delivered" are decided by the tree '
            'stream (registered / processed counters compared after every event) and its monitors at quiescence, not by a '
            'theorem; pause / resume propagation in the tree (C10): monitors only.',
}
RULE = ('stream lifecycle (exhaustive); stream core (mode stop/mixed; 60% of the programs with engine commands in on-clauses - pause with '
        'following targets, fail / succeed / noop first / middle / last -, a directed pause-backlog shape, stop while commands sit in the '
        'backlog, corpus/core replays; monitors on the real observations: no execution created after a final state / while PAUSED); stream engine (mode stop): stop(SUCCESS|ERROR|'
        'CANCELLED) at a random point of generated runs; stream tree: generated case = nesting depth 2..3 x per level 1..2 '
        'sub-workflow tasks side by side (plain / with-items 1..3 items / concurrency 1..2) with on-success / on-error '
        'continuations (some calling the next level again) and an extra action task x start mode (in-process / '
        'start_subworkflows_via_rpc) x action results x 0..3 operator commands stop(CANCELLED|ERROR|SUCCESS) on the root '
        'or an inner / running execution at random points x schedule policy (random / fifo / lifo) of all pending '
        'deliveries; non-trivial = trace with a stop command; distinct = distinct case descriptions; stream race-wf: '
        '6 scenarios x 5 interferers x every pre-lock significant SQL statement (exhaustive, 86 cases)')
TRUSTED = ['harness seams replaced by recorders',
           'translate/race_scripts.py (AST, fail closed); harness/race_driver.py: SQL statement tap, thread-local swap; '
           'row-lock waits modelled, not executed on sqlite',
           'tree stream: executions and task executions are identified by creation rank; state_info / output are compared '
           'by class (none / the operator message / engine-computed)']
LEAN_MODULES = ['Mistral.Props.C11', 'Mistral.Props.C11X', 'Mistral.Props.C11Tree', 'Mistral.Props.C03Race', 'Mistral.Props.C03RaceCac', 'Mistral.Props.C01X', 'Mistral.Props.C03X', 'Mistral.Props.C11Cmd']
# second/third round: the C11Tree theorems are at full strength and hold for EVERY event history (stops, pause and
# resume commands with their propagation, lost post-commit operations); see docs/C11.md
RACE_CHUNKS = [{'family': 'wf', 'scenarios': ['cacSucceed', 'stopCancel']},
               {'family': 'wf', 'scenarios': ['cacFail', 'stopSuccess']},
               {'family': 'wf', 'scenarios': ['cacCancel', 'stopError', 'resume']}]


def correspond(ctx):
    from harness import engine_driver, lifecycle_stream
    w = engine_driver.EngineWorld(seed=ctx.seed)
    lifecycle_stream.run(ctx, w)
    from vlib import par
    par.run_parallel(ctx, 'harness.core_stream', 'run_chunk', [{'n_programs': ctx.n(10, 100), 'mode': 'stop'}] * 7
                     + [{'n_programs': ctx.n(10, 100), 'mode': 'mixed'}] * 7)
    par.run_parallel(ctx, 'harness.engine_stream', 'run_chunk',
                     [{'n_programs': ctx.n(10, 100), 'props': ['C11'], 'mode': 'stop'}] * 14)
    par.run_parallel(ctx, 'harness.tree_stream', 'run_chunk', [{'n_cases': ctx.n(8, 50), 'props': ['C11']}] * 14)
    # statement granularity ("late results do not change state or output" below one transaction)
    par.run_parallel(ctx, 'harness.race_driver', 'run_chunk', RACE_CHUNKS)


def search(ctx):
    """Failing-input search after a broken obligation / disagreement: the tree monitors on a widened population
    (every case with operator commands, other seeds); the corpus witnesses run again."""
    from vlib import par
    par.run_parallel(ctx, 'harness.race_driver', 'run_chunk', RACE_CHUNKS)
    if ctx.violations:
        return
    seed = ctx.seed
    ctx.seed = seed + 1000
    try:
        par.run_parallel(ctx, 'harness.tree_stream', 'run_chunk', [{'n_cases': 25, 'gen_kw': {'p_ops': 1.0}}] * 14)
    finally:
        ctx.seed = seed


def replay(ctx, rep):
    if isinstance(rep.get('replay'), dict) and rep['replay'].get('stream') == 'core':
        from harness import boot
        boot.boot()
        from harness import core_stream
        core_stream.replay(ctx, rep)
        return
    r = rep.get('replay', rep)
    if isinstance(r, dict) and r.get('kind') == 'race':
        from harness import race_driver
        n0 = len(ctx.violations) + len(ctx.known_hit)
        race_driver.run_chunk(ctx, 'wf', [r['scenario']], [r['interferer']])
        print('replay: %s x %s at every gap -> %d hit(s)' % (
            r['scenario'], r['interferer'], len(ctx.violations) + len(ctx.known_hit) - n0))
        for v in ctx.violations:
            print('  ', v['what'][:300], json.dumps(v['signature']))
        return
    if isinstance(r, dict) and r.get('kind') == 'tree':
        from harness import boot
        boot.boot()
        from harness import tree_stream as T
        n0 = len(ctx.violations) + len(ctx.known_hit)
        T.run_replay(ctx, {'case': r['case'], 'script': r.get('script')})
        print('replay: tree -> %d hit(s)' % (len(ctx.violations) + len(ctx.known_hit) - n0))
        for v in ctx.violations:
            print('  ', v['what'][:300], json.dumps(v['signature']))
        return
    from harness import engine_stream
    engine_stream.replay(ctx, rep, ['C11'])
