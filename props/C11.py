"""C11 — stop and cancel end the whole execution tree; late results change nothing."""
GEN = ['states']
MANIFEST = {
    'technique': 'Lean 4 invariants over an executable engine model (step-by-step refinement check against the real '
                 'engine) + exhaustive lifecycle table check + trace monitors on generated stop histories',
    'text': 'Theorems: finished_is_inert (once the workflow is final EVERY event leaves the task set and the workflow '
            'state unchanged), stop_sets_requested_state, stop_error_on_paused_full_fails (witness of known finding E). '
            'Tied by the core stream (model = real after every event) and the exhaustive lifecycle stream (every state x '
            'every operation on the real objects). Cancel recursion into sub-workflows and "reported to the parent exactly '
            'once" are decided by monitors / C09, not by theorems here.',
    'note': 'One event = one committed transaction; sub-workflow trees are not in Mistral.Engine.',
}
RULE = ('stream lifecycle (exhaustive); stream core (mode stop/mixed); stream engine (mode stop): stop(SUCCESS|ERROR|'
        'CANCELLED) at a random point of generated runs; non-trivial = trace with a stop command')
TRUSTED = ['harness seams replaced by recorders']
LEAN_MODULES = ['Mistral.Props.C11']


def correspond(ctx):
    from harness import engine_driver, lifecycle_stream
    w = engine_driver.EngineWorld(seed=ctx.seed)
    lifecycle_stream.run(ctx, w)
    from vlib import par
    par.run_parallel(ctx, 'harness.core_stream', 'run_chunk', [{'n_programs': ctx.n(10, 300), 'mode': 'stop'}] * 7
                     + [{'n_programs': ctx.n(10, 300), 'mode': 'mixed'}] * 7)
    par.run_parallel(ctx, 'harness.engine_stream', 'run_chunk',
                     [{'n_programs': ctx.n(10, 300), 'props': ['C11'], 'mode': 'stop'}] * 14)


def search(ctx):
    pass


def replay(ctx, rep):
    from harness import engine_stream
    engine_stream.replay(ctx, rep, ['C11'])
