"""C19 — outbound HTTP cannot reach denied networks.

Tie A: default deny-list regenerated from mistral/config.py.
Tie B: stream `egress` (real validate_url vs Model.Egress.validate on a URL
catalogue), stream `parsehost` (libc numeric-host parsing vs Model parseHost).
Monitor: ground truth by construction — a URL built from an address inside a
denied network must be refused, in every textual form, and the HTTP client must
not be called after a refusal.
"""
import ipaddress
import itertools
import socket
from urllib import parse

GEN = ['egress_defaults']
MANIFEST = {
    'technique': 'Lean 4 theorems over a model of validate_url + generated default deny-list; '
                 'differential check of the model against validate_url/getaddrinfo on a URL catalogue',
    'text': 'Theorems (all configs, hosts, address lists): a resolved address that denotes (incl. IPv4-mapped) '
            'an address in a denied network is refused; acceptance implies http/https scheme, non-empty host and '
            'allow-list membership; the default deny-list REGENERATED from config.py covers 127/8, ::1, '
            '169.254/16 (metadata), fe80::/10; inet_aton 1-4 part forms denote the same address. The model is tied '
            'to mistral/utils/egress.py by running both on the URL catalogue (scheme x userinfo x host encodings '
            'x port x path x 5 configs), and an independent monitor checks the statement on the real code.',
    'note': 'urlsplit, getaddrinfo, ipaddress are trusted (model gets their outputs; parseHost validated on the '
            'catalogue only); DNS rebinding and redirects out of scope; Lean kernel + propext/Classical.choice/Quot.sound',
}
RULE = ('URL catalogue = schemes x userinfo x host encodings of addresses inside/outside the '
        'denied networks x ports x paths x config variants; a case is non-trivial when its host '
        'is a numeric address form inside some denied network of the active configuration '
        '(distinct = distinct (config, url)); quick tier samples the cross product with the seed, '
        'thorough tier enumerates it')
TRUSTED = [
    'urllib.parse.urlsplit, socket.getaddrinfo and python ipaddress are not modelled: the model '
    'receives (scheme, hostname, resolved addresses) from them; parseHost is validated against '
    'getaddrinfo(AI_NUMERICHOST) on the catalogue only',
    'translator translate/egress_defaults.py (AST read of config.py ListOpt defaults)',
    'DNS rebinding between check and connect is outside the property (documented by the code)',
]
ASSUMPTIONS = ['numeric hosts resolve without network; localhost resolves through /etc/hosts']

V4_IN = ['127.0.0.1', '127.255.255.254', '127.0.0.0', '127.1.2.3', '169.254.169.254',
         '169.254.0.1', '169.254.255.255']
V4_OUT = ['8.8.8.8', '128.0.0.1', '126.255.255.255', '169.253.255.255', '169.255.0.0',
          '10.0.0.5', '192.168.1.1', '172.16.3.4', '0.0.0.0', '1.1.1.1', '255.255.255.255']
V6_IN = ['::1', 'fe80::1', 'fe80::dead:beef', 'febf:ffff::1']
V6_OUT = ['2001:db8::1', 'fec0::1', '::2', '::', 'fe7f::1', 'fd00::5', '64:ff9b::7f00:1']


def v4_forms(a):
    n = int(ipaddress.IPv4Address(a))
    b = [(n >> 24) & 255, (n >> 16) & 255, (n >> 8) & 255, n & 255]
    forms = {
        'dec': '%d.%d.%d.%d' % tuple(b),
        'oct': '0%o.0%o.0%o.0%o' % tuple(b),
        'hex': '0x%x.0x%x.0x%x.0x%x' % tuple(b),
        'HEX': '0X%X.0X%X.0X%X.0X%X' % tuple(b),
        'mixed': '0x%x.%d.0%o.%d' % tuple(b),
        'dword': '%d' % n,
        'dwordhex': '0x%x' % n,
        'dwordoct': '0%o' % n,
        'short2': '%d.%d' % (b[0], n & 0xffffff),
        'short3': '%d.%d.%d' % (b[0], b[1], n & 0xffff),
        'short3hex': '0x%x.0x%x.0x%x' % (b[0], b[1], n & 0xffff),
        'trailingdot': '%d.%d.%d.%d.' % tuple(b),
        'padded': '%03d.%03d.%03d.%03d' % tuple(b),   # leading zeros => octal in libc!
        'mapped_quad': '[::ffff:%d.%d.%d.%d]' % tuple(b),
        'mapped_hex': '[::ffff:%x:%x]' % (n >> 16, n & 0xffff),
        'mapped_full': '[0:0:0:0:0:ffff:%x:%x]' % (n >> 16, n & 0xffff),
        'mapped_upper': '[::FFFF:%X:%X]' % (n >> 16, n & 0xffff),
        'compat': '[::%d.%d.%d.%d]' % tuple(b),
    }
    return forms


def v6_forms(a):
    ip = ipaddress.IPv6Address(a)
    return {
        'compressed': '[%s]' % ip.compressed,
        'exploded': '[%s]' % ip.exploded,
        'upper': '[%s]' % ip.compressed.upper(),
        'exploded_upper': '[%s]' % ip.exploded.upper(),
    }


NAMES = ['localhost', 'LOCALHOST', 'LocalHost', 'localhost.', 'example.invalid',
         'metadata.invalid', 'ip6-localhost', '', 'a b', '%31%32%37.0.0.1', '127.0.0.1%00']

SCHEMES = ['http', 'https', 'HTTP', 'HtTpS', 'ftp', 'file', 'gopher', '', 'javascript', 'http+unix', 'ws']
USERINFO = ['', 'user@', 'user:pw@', 'a%40b@', '8.8.8.8@']
PORTS = ['', ':80', ':8080', ':0', ':65535', ':65536', ':abc', ':']
PATHS = ['', '/', '/latest/meta-data/', '?q=1', '#frag', '/a@8.8.8.8/', '\\@8.8.8.8/']

CONFIGS = [
    {'name': 'default', 'denied': None, 'allowed': []},
    {'name': 'rfc1918', 'denied': ['127.0.0.0/8', '::1/128', '169.254.0.0/16', 'fe80::/10',
                                   '10.0.0.0/8', '172.16.0.0/12', '192.168.0.0/16'], 'allowed': []},
    {'name': 'empty', 'denied': [], 'allowed': []},
    {'name': 'hostbits+invalid', 'denied': ['10.1.2.3/8', 'not-a-cidr', '::ffff:0:0/96', '1.1.1.1'],
     'allowed': []},
    {'name': 'allowlist', 'denied': None,
     'allowed': ['8.8.8.8', 'localhost', '127.0.0.1', '2001:db8::1', 'example.invalid']},
]


def _setup():
    from harness import boot
    boot.boot()
    from oslo_config import cfg
    return cfg.CONF


def net_json(cidr):
    try:
        n = ipaddress.ip_network(cidr, strict=False)
    except ValueError:
        return None
    return {'fam': n.version, 'base': str(int(n.network_address)), 'plen': n.prefixlen}


def addr_json(s):
    ip = ipaddress.ip_address(s)
    return {'fam': ip.version, 'v': str(int(ip))}


def classify_impl(url):
    from mistral import exceptions as exc
    from mistral.utils import egress
    try:
        egress.validate_url(url)
        return 'ok'
    except exc.UrlNotAllowedException as e:
        m = str(e)
        if 'scheme' in m:
            return 'badScheme'
        if 'does not contain a host' in m:
            return 'noHost'
        if 'allowed_hosts' in m:
            return 'hostNotAllowed'
        if 'blocked address' in m:
            return 'blocked'
        return 'refused:' + m[:40]
    except ValueError:
        return 'portError'
    except Exception as e:  # undeclared
        return 'exception:' + type(e).__name__


def model_args(url, denied, allowed):
    """What urlsplit/getaddrinfo hand to the decision logic."""
    try:
        p = parse.urlsplit(url)
        scheme, host = p.scheme, p.hostname or ''
    except ValueError:
        return None      # urlsplit itself refuses (e.g. bad bracketed host)
    try:
        port = p.port
        try:
            infos = socket.getaddrinfo(host, port) if host else []
            addrs = []
            for i in infos:
                a = i[4][0]
                aj = addr_json(a.split('%')[0])
                if aj not in addrs:
                    addrs.append(aj)
        except (socket.gaierror, UnicodeError):
            addrs = 'unresolvable'
    except ValueError:
        addrs = 'badPort'
    return {'scheme': scheme, 'host': host, 'allowed': allowed,
            'denied': [n for n in (net_json(c) for c in denied) if n], 'addrs': addrs}


def ground_truth_denied(addr, denied):
    """Property reading: does `addr` (ip string) lie in a denied net?"""
    ip = ipaddress.ip_address(addr)
    cands = [ip]
    if ip.version == 6 and ip.ipv4_mapped is not None:
        cands.append(ip.ipv4_mapped)
    for c in denied:
        try:
            n = ipaddress.ip_network(c, strict=False)
        except ValueError:
            continue
        for x in cands:
            if x.version == n.version and x in n:
                return True
    return False


def build_hosts():
    hosts = []   # (host text, ground-truth ip string or None, form)
    for a in V4_IN + V4_OUT:
        for form, h in v4_forms(a).items():
            gt = a
            if form.startswith('mapped'):
                gt = '::ffff:' + a
            elif form == 'compat':
                gt = '::' + a
            elif form in ('padded', 'trailingdot'):
                gt = None    # libc-dependent; learned from getaddrinfo
            hosts.append((h, gt, 'v4:' + form))
    for a in V6_IN + V6_OUT:
        for form, h in v6_forms(a).items():
            hosts.append((h, a, 'v6:' + form))
    for nme in NAMES:
        hosts.append((nme, None, 'name'))
    return hosts


def correspond(ctx):
    CONF = _setup()
    default_denied = list(CONF.action_std_http.denied_cidrs)
    hosts = build_hosts()
    drv = ctx.driver()
    # --- stream parsehost: libc numeric parsing vs model
    pj = []
    for h, gt, form in hosts:
        bare = h[1:-1] if h.startswith('[') else h
        try:
            r = socket.getaddrinfo(bare, None, flags=socket.AI_NUMERICHOST)
            impl = addr_json(r[0][4][0])
        except (socket.gaierror, UnicodeError, ValueError):
            impl = None
        pj.append((bare, form, impl))
    outs = drv.batch('egress.parseHost', [{'host': b} for b, _, _ in pj])
    for (bare, form, impl), mo in zip(pj, outs):
        ctx.evaluated('parsehost', bare, nontrivial=impl is not None)
        ctx.count('parsehost', form.split(':')[0])
        if mo != impl:
            ctx.disagree('parsehost', {'host': bare, 'form': form}, mo, impl)
    # --- stream egress
    combos = list(itertools.product(range(len(CONFIGS)), SCHEMES, USERINFO,
                                    range(len(hosts)), PORTS, PATHS))
    if not ctx.thorough():
        # every host form under every config with the plain URL shape, plus a seeded sample
        base = [(c, 'http', '', h, '', '/') for c in range(len(CONFIGS)) for h in range(len(hosts))]
        base += [(0, s, u, h, p, '/x') for s in SCHEMES for u in USERINFO
                 for h in ctx.rng.sample(range(len(hosts)), 6) for p in PORTS]
        combos = base + ctx.rng.sample(combos, 4000)
    cases = []
    by_cfg = {}
    for c in combos:
        by_cfg.setdefault(c[0], []).append(c)
    from mistral.actions import std_actions
    from mistral.notifiers.publishers import webhook
    from unittest import mock
    monitor_calls = 0
    for ci, lst in by_cfg.items():
        cfgv = CONFIGS[ci]
        denied = default_denied if cfgv['denied'] is None else cfgv['denied']
        CONF.set_override('denied_cidrs', denied, group='action_std_http')
        CONF.set_override('allowed_hosts', cfgv['allowed'], group='action_std_http')
        try:
            margs, meta = [], []
            for (_, scheme, ui, hi, port, path) in lst:
                h, gt, form = hosts[hi]
                url = '%s://%s%s%s%s' % (scheme, ui, h, port, path) if scheme else '//%s%s%s%s' % (ui, h, port, path)
                impl = classify_impl(url)
                ma = model_args(url, denied, cfgv['allowed'])
                if ma is None:
                    # urlsplit refused the text: must not be accepted
                    ctx.count('egress', 'urlsplit-refused')
                    if impl == 'ok':
                        ctx.violation('validate_url accepted a URL urlsplit cannot parse',
                                      {'url': url, 'config': cfgv}, {'kind': 'unparsable-accepted'})
                    continue
                margs.append(ma)
                meta.append((url, impl, gt, form, scheme, ui, port, path, h))
            outs = drv.batch('egress.validate', margs)
            for (url, impl, gt, form, scheme, ui, port, path, form_host), ma, mo in zip(meta, margs, outs):
                ctx.count('egress', 'impl:' + impl)
                ctx.count('egress', 'form:' + form)
                # ground truth from what the socket layer would connect to
                resolved = ma['addrs'] if isinstance(ma['addrs'], list) else []
                res_ips = [str(ipaddress.ip_address(int(a['v'])) if a['fam'] == 4
                               else ipaddress.IPv6Address(int(a['v']))) for a in resolved]
                gt_denied = any(ground_truth_denied(a, denied) for a in res_ips)
                # ground truth by construction, only when urlsplit's host is the host we wrote
                # (paths like '\\@8.8.8.8/' move the host; parser differentials between urlsplit
                # and the HTTP client are outside the model, see TRUSTED)
                hi_text = form_host.strip('[]').lower()
                if gt is not None and resolved and ma['host'] == hi_text:
                    gt_denied = gt_denied or ground_truth_denied(gt, denied)
                nontrivial = gt_denied
                ctx.evaluated('egress', [cfgv['name'], url], nontrivial=nontrivial)
                if len(ctx.cov['samples']) < 6 and nontrivial and ctx.rng.random() < 0.01:
                    ctx.sample({'config': cfgv['name'], 'url': url, 'impl': impl, 'model': mo})
                if mo != impl:
                    ctx.disagree('egress', {'url': url, 'config': cfgv, 'model_args': ma}, mo, impl)
                # --- monitor (property statement, independent of the model)
                if impl == 'ok':
                    bad = None
                    if scheme.lower() not in ('http', 'https'):
                        bad = 'scheme'
                    elif cfgv['allowed'] and ma['host'] not in cfgv['allowed']:
                        bad = 'allowlist'
                    elif gt_denied:
                        bad = 'denied-address'
                    if bad:
                        mapped = any(ipaddress.ip_address(a).version == 6 and
                                     ipaddress.ip_address(a).ipv4_mapped is not None
                                     and not any(ipaddress.ip_address(a) in ipaddress.ip_network(c, strict=False)
                                                 for c in denied if net_json(c) and ipaddress.ip_network(c, strict=False).version == 6)
                                     for a in res_ips)
                        sig = {'kind': 'egress-accepts-' + bad + ('-ipv4-mapped' if bad == 'denied-address' and mapped else '')}
                        ctx.violation('validate_url accepts %s (%s) under config %s' % (url, bad, cfgv['name']),
                                      {'url': url, 'config': cfgv, 'resolved': res_ips, 'impl': impl},
                                      sig)
                # HTTP client must not be called after a refusal (sampled)
                if impl not in ('ok',) and monitor_calls < ctx.n(150, 2000) and ctx.rng.random() < 0.05:
                    monitor_calls += 1
                    with mock.patch('requests.request') as rq, mock.patch('requests.post') as rp:
                        try:
                            std_actions.HTTPAction(url=url).run(None)
                        except Exception:
                            pass
                        try:
                            webhook.WebhookPublisher().publish(None, 'ex', {}, 'E', 't', url=url)
                        except Exception:
                            pass
                        if rq.called or rp.called:
                            ctx.violation('HTTP client invoked after validate_url refused %s' % url,
                                          {'url': url, 'config': cfgv}, {'kind': 'client-called-after-refusal'})
        finally:
            CONF.clear_override('denied_cidrs', group='action_std_http')
            CONF.clear_override('allowed_hosts', group='action_std_http')
    ctx.cov['exhaustive'] = ctx.thorough()
    ctx.count('egress', 'client-not-called-monitor', monitor_calls)


def search(ctx):
    """Failing-input search after a broken obligation/correspondence: the monitor in
    correspond() already evaluated the property on every catalogue URL; widen to the
    whole cross product if the quick tier sampled it."""
    if not ctx.thorough():
        ctx.tier = 'thorough'
        try:
            correspond(ctx)
        finally:
            ctx.tier = 'quick'


def replay(ctx, rep):
    CONF = _setup()
    r = rep['replay']
    cfgv = r['config']
    denied = list(CONF.action_std_http.denied_cidrs) if cfgv['denied'] is None else cfgv['denied']
    CONF.set_override('denied_cidrs', denied, group='action_std_http')
    CONF.set_override('allowed_hosts', cfgv['allowed'], group='action_std_http')
    impl = classify_impl(r['url'])
    print('replay: validate_url(%r) -> %s' % (r['url'], impl))
    if impl == 'ok':
        ctx.violation(rep['what'], r, rep.get('signature'))
