"""C10 — pause creates no new tasks; resume continues to the same result."""
GEN = ['states']
MANIFEST = {'technique': 'WORK IN PROGRESS', 'text': 'WORK IN PROGRESS', 'note': ''}
RULE = 'engine stream, mode pause'
TRUSTED = []
LEAN_MODULES = ['Mistral.Props.C03']


def correspond(ctx):
    from vlib import par
    par.run_parallel(ctx, 'harness.engine_stream', 'run_chunk',
                     [{'n_programs': ctx.n(14, 400), 'props': ['C10', 'C01'], 'mode': 'pause'}] * 14)


def search(ctx):
    pass


def replay(ctx, rep):
    pass
