"""C10 — pause creates no new tasks; resume continues to the same result."""
GEN = ['states']
MANIFEST = {
    'technique': 'Lean 4 invariants over an executable engine model (step-by-step refinement check against the real '
                 'engine) + trace monitors on generated pause/resume histories',
    'text': 'Theorems over Mistral.Engine, for every spec/world/event: pause_acknowledged; no_creation_while_paused '
            '(no task execution is created by any delivery or command other than resume while PAUSED); '
            'paused_stays_paused (with engine commands: Mistral.Props.C10X.pause_acknowledgedX, pause_command_acknowledged, paused_stays_pausedX / paused_stays_paused_stepX; Props.C11X.no_creation_while_pausedX). ENGINE COMMANDS (Mistral.Props.C11X over Mistral.Engine.stepX, Model/EngineX.lean: fail / succeed / pause / noop in on-clauses, dispatcher._process_commands / _rearrange_commands incl. the sort, the command BACKLOG, RunExistingTask commands; tied by the core stream whose programs carry engine commands): no_dispatch_into_completed (EVERY world, every event: in a completed workflow no task execution is created and the state does not change, ALSO NOT THROUGH THE BACKLOG - a backlog polled there is dropped), no_dispatch_into_completed_reachable, pause_command_saves_rest (the commands after a `pause` command are saved, nothing of them is created), backlog_untouched_while_paused (never lost), backlog_restored_once (when polled in a RUNNING workflow each saved task command is dispatched exactly once: one execution + one start request each, backlog empty afterwards), restored_join_defers (since repo_patches/32 a join command restored from the backlog keeps wait / unique_key and defers to the WAITING execution of the join like a fresh one; was the finding join-created-idle). '
            'The model is tied to the real engine by the `core` stream: after EVERY event '
            '(message, post-commit operation, scheduler job, action result, pause/resume/stop) committed rows and '
            'pending deliveries of the real engine must equal the model. "SAME RESULT AFTER RESUME" IS A THEOREM of the '
            'engine model (Mistral.Props.C02Sem, see C02): the engine model refines the declarative semantics Mistral.Sem '
            '(outcome = function of definition + action results), for every definition of the class (acyclic, SpecOK: joins of '
            'every kind, forks, several activations), every oracle and every plain history with pause / resume ANYWHERE: '
            'sound, complete_at_quiescence, pause_resume_same_outcome (a quiescent history with pause / resume '
            'rounds has the same workflow state and set of task rows (name, state, next_tasks) as ANY quiescent history that '
            'was never paused), at full strength since the two defects that stood in the way are repaired (acd6a089; '
            'repo_patches/20: a stale start_task(first_run=False) request for a task that has meanwhile completed is ignored - '
            'regression stale_request_regression + corpus/C02). Tie: stream `sem` (real engine with pause / resume rounds at '
            'random points run to quiescence vs the semantics computed by the Lean driver). Programs with data flow: engine '
            'stream (paired paused/unpaused runs of generated programs, monitors read on the real traces).',
    'note': 'One event = one committed transaction (in-process atomicity); multi-process sub-transaction races are '
            'not exhibited. Data flow/expressions/policies/sub-workflows are outside Mistral.Engine (covered by the '
            'monitors only). Sub-workflow trees: Mistral.Tree models pause_workflow / resume_workflow / _on_action_update '
            'calling each other inside one transaction (sub-workflows first, then the workflow, then the parent task and '
            'the parent workflow: synchronously for a plain parent task, through a scheduler job for a with-items one), the '
            'backlog, Task.complete while PAUSED, Workflow.resume / RunExistingTask; tied by the tree stream (pause / resume '
            '/ stop commands on any node of generated trees; rows, backlog and pending deliveries equal after EVERY event). '
            'Mistral.Props.C10Tree: no_task_created_while_paused (ALL trees / states, lifted to `step`: under every event '
            'except the resume command and the scheduled update job of a with-items child a PAUSED execution stays '
            'PAUSED or is completed and gets NO task row; relation Quiet, Lemmas/TreePause) and its run version; '
            'pause_request_is_good / resume_request_is_good (the whole pause / resume transaction incl. propagation '
            'never touches a finished execution; resume needs repo patch 20); pause_subtree_full_fails (the pause loop '
            'skips running executions below a finished child: known finding, corpus/C10/tree_pause_skips.json); '
            'function-level dispatch_into_paused_creates_no_task, dispatch_list_into_paused_creates_no_task, '
            'complete_in_paused_creates_no_task; the propagation on concrete trees (pause root / leaf, resume root / leaf, '
            'pause then cancel). pause_subtree / pause_acknowledged_tree / pause_only_pauses / pause_calling_task (ALL '
            'reachable trees: a pause request on an unfinished execution does not raise; EVERY execution at or below it '
            'that is not completed is PAUSED in the same transaction, which creates no row and only moves RUNNING to '
            'PAUSED; the RUNNING plain calling task of each execution it pauses is PAUSED in the same transaction, for a '
            'with-items calling task the update job is pending; Lemmas/TreeProp, Lemmas/TreeFollow; needs repo patch 23 '
            'for executions below a finished child). resume_pauses_nothing / resume_acknowledged_tree (EVERY tree and state: a '
            'resume request never raises, pauses nothing, and the resumed execution leaves PAUSED; Lemmas/TreeResume). NOT '
            'proved for all trees: every PAUSED execution below the resumed one is resumed (decided by the tree stream and '
            'its monitors).',
}
RULE = ('stream core: data-free single-activation programs x oracles x schedules x pause/resume/stop at random points, '
        'model vs real after every event; stream engine (mode pause): generated programs with data flow, pause and '
        'resume at random points, paired with the unpaused run; non-trivial = a join or an operator command in the '
        'trace; distinct = distinct (definition, oracle, schedule seed, commands); stream sem as in C02')
TRUSTED = ['harness seams (post-commit thread, RPC client, executor, scheduler dispatcher) replaced by recorders']
LEAN_MODULES = ['Mistral.Props.C10', 'Mistral.Props.C11X', 'Mistral.Props.C10Tree', 'Mistral.Props.C02Sem', 'Mistral.Props.C01X', 'Mistral.Props.C10X']


def correspond(ctx):
    from vlib import par
    par.run_parallel(ctx, 'harness.core_stream', 'run_chunk', [{'n_programs': ctx.n(10, 300), 'mode': 'pause'}] * 7
                     + [{'n_programs': ctx.n(10, 300), 'mode': 'mixed'}] * 7)
    par.run_parallel(ctx, 'harness.engine_stream', 'run_chunk',
                     [{'n_programs': ctx.n(10, 300), 'props': ['C10'], 'mode': 'pause'}] * 14)
    # the execution TREE: pause / resume (and stop) commands on any node of generated sub-workflow trees,
    # Mistral.Tree vs the real engine after every event + the monitors of the first sentence of C10
    par.run_parallel(ctx, 'harness.tree_stream', 'run_chunk',
                     [{'n_cases': ctx.n(8, 120), 'props': ['C10'], 'gen_kw': {'p_pause': 0.6}}] * 14)
    # "same result after resume" against the declarative semantics (theorem pause_resume_same_outcome)
    par.run_parallel(ctx, 'harness.sem_stream', 'run_chunk', [{'n_programs': ctx.n(5, 150)}] * 14)


def search(ctx):
    """failing-input search: first the disagreeing cases themselves, run to the end on the real engine against their
    unpaused reference run; then a wider population with more failing actions (errors handled while PAUSED)"""
    from harness import engine_stream
    from vlib import par
    engine_stream.search_from_core(ctx, ['C10'], 'pause')
    if ctx.violations:
        return
    par.run_parallel(ctx, 'harness.engine_stream', 'run_chunk',
                     [{'n_programs': 30, 'props': ['C10'], 'mode': 'pause', 'p_err': 0.3}] * 14)


def replay(ctx, rep):
    if isinstance(rep.get('replay'), dict) and rep['replay'].get('stream') == 'core':
        from harness import boot
        boot.boot()
        from harness import core_stream
        core_stream.replay(ctx, rep)
        return
    if isinstance(rep.get('replay'), dict) and rep['replay'].get('stream') == 'sem':
        from harness import sem_stream
        sem_stream.replay(ctx, rep)
        return
    from harness import engine_stream
    engine_stream.replay(ctx, rep, ['C10'])
