"""C10 — pause creates no new tasks; resume continues to the same result."""
GEN = ['states']
MANIFEST = {
    'technique': 'Lean 4 invariants over an executable engine model (step-by-step refinement check against the real '
                 'engine) + trace monitors on generated pause/resume histories',
    'text': 'Theorems over Mistral.Engine, for every spec/world/event: pause_acknowledged; no_creation_while_paused '
            '(no task execution is created by any delivery or command other than resume while PAUSED); '
            'paused_stays_paused. The model is tied to the real engine by the `core` stream: after EVERY event '
            '(message, post-commit operation, scheduler job, action result, pause/resume/stop) committed rows and '
            'pending deliveries of the real engine must equal the model. "SAME RESULT AFTER RESUME" IS A THEOREM of the '
            'engine model (Mistral.Props.C02Sem, see C02): the engine model refines the declarative semantics Mistral.Sem '
            '(outcome = function of definition + action results), for every definition of the class (acyclic, SpecOK: joins of '
            'every kind, forks, several activations), every oracle and every plain history with pause / resume ANYWHERE: '
            'sound, complete_at_quiescence_partial, pause_resume_same_outcome_partial (a quiescent history with pause / resume '
            'rounds has the same workflow state and set of task rows (name, state, next_tasks) as ANY quiescent history that '
            'was never paused). At full strength the statement is FALSE of the code: pause_resume_same_outcome_full_fails '
            '(resume re-queues start_task(first_run=False) for a task that is still IDLE; delivered after the task has FAILED '
            'it runs the failed task again - witness proved in Lean, replayed on the real engine, known finding); the other '
            'excluded class is the C01 finding (PausedClean). Tie: stream `sem` (real engine with pause / resume rounds at '
            'random points run to quiescence vs the semantics computed by the Lean driver). Programs with data flow: engine '
            'stream (paired paused/unpaused runs of generated programs, monitors read on the real traces).',
    'note': 'One event = one committed transaction (in-process atomicity); multi-process sub-transaction races are '
            'not exhibited. Data flow/expressions/policies/sub-workflows are outside Mistral.Engine (covered by the '
            'monitors only). Sub-workflow pause propagation: monitors only.',
}
RULE = ('stream core: data-free single-activation programs x oracles x schedules x pause/resume/stop at random points, '
        'model vs real after every event; stream engine (mode pause): generated programs with data flow, pause and '
        'resume at random points, paired with the unpaused run; non-trivial = a join or an operator command in the '
        'trace; distinct = distinct (definition, oracle, schedule seed, commands); stream sem as in C02')
TRUSTED = ['harness seams (post-commit thread, RPC client, executor, scheduler dispatcher) replaced by recorders']
LEAN_MODULES = ['Mistral.Props.C10', 'Mistral.Props.C02Sem']


def correspond(ctx):
    from vlib import par
    par.run_parallel(ctx, 'harness.core_stream', 'run_chunk', [{'n_programs': ctx.n(10, 300), 'mode': 'pause'}] * 7
                     + [{'n_programs': ctx.n(10, 300), 'mode': 'mixed'}] * 7)
    par.run_parallel(ctx, 'harness.engine_stream', 'run_chunk',
                     [{'n_programs': ctx.n(10, 300), 'props': ['C10'], 'mode': 'pause'}] * 14)
    # "same result after resume" against the declarative semantics (theorem pause_resume_same_outcome_partial)
    par.run_parallel(ctx, 'harness.sem_stream', 'run_chunk', [{'n_programs': ctx.n(5, 150)}] * 14)


def search(ctx):
    from vlib import par
    par.run_parallel(ctx, 'harness.engine_stream', 'run_chunk',
                     [{'n_programs': 30, 'props': ['C10'], 'mode': 'pause'}] * 14)


def replay(ctx, rep):
    if isinstance(rep.get('replay'), dict) and rep['replay'].get('stream') == 'sem':
        from harness import sem_stream
        sem_stream.replay(ctx, rep)
        return
    from harness import engine_stream
    engine_stream.replay(ctx, rep, ['C10'])
