"""C07 — with-items runs each item once, within the concurrency limit, results in order."""
import json

GEN = []
LEAN_MODULES = ['Mistral.Props.C07']
MANIFEST = {
    'technique': 'Lean 4 theorems over an executable model of the with-items bookkeeping '
                 '(count / capacity / concurrency / action executions (index, state, accepted) / pending '
                 'completion jobs / task state): invariants by induction over ALL operation sequences; the model is '
                 'stepped along every committed transaction of the REAL engine (deterministic in-process driver) and '
                 'diffed after each; the statement itself is monitored on the same traces',
    'text': 'For every item count, concurrency value, retry count and every sequence of start / item-result / '
            'completion-job / rerun / retry operations the model keeps #RUNNING + capacity + #unhandled completions = '
            'concurrency, hence never more than `concurrency` children RUNNING (running_le_concurrency, no exclusion). '
            'In the first round the k-th execution has index k, a SUCCESS/ERROR task has exactly one accepted '
            'execution per index and nothing RUNNING, its result is sorted by index whatever the completion order, the '
            'final state follows the rule (CANCELLED over ERROR over SUCCESS), an empty list succeeds in the start '
            'transaction. For ALL histories (reruns with and without reset, retries) no index has two accepted-or-RUNNING '
            'executions (index_started_once) and rerun(reset=false) starts only items without an accepted SUCCESS '
            '(rerun_only_failed) - both true since repository fix 494951d1, their former counter-witnesses are '
            'regressions. One full statement is FALSE of the code and kept as _full_fails with a witness replayed on the '
            'real engine: a CANCELLED item completes the task while others run or were never started. EVALUATION '
            '(EvalSpec: the with-items expression, the action input of every item, the concurrency value; stepE/runE, '
            'stepE {} = step so the theorems above are the evaluation-clean histories): for every failure table, every '
            'state and every scheduling round an item input of the portion that fails to evaluate schedules NO action '
            'of that round and the task is ERROR (input_failure_starts_nothing); a transaction that creates executions '
            'never completes their task and a completed task gets no execution except by an explicit rerun '
            '(created_only_while_task_open, completed_task_has_no_running_child_started_later); unequal / non-iterable '
            'item lists, a failing items expression or an ill-typed concurrency are a declared error in the start '
            'transaction and nothing is ever started, reruns included (unevaluable_items_start_nothing); no index is '
            'started twice and none >= n for ALL tables (index_started_once_all_tables). Since repo patch 30 (the inputs of '
            'ALL items are evaluated and validated against the action when the task is started or rerun, of the whole '
            'portion otherwise, before any execution is created) every failure table either starts nothing at all or '
            'gives the clean history (eval_failure_or_clean), hence running_le_concurrency_all_tables and '
            'error_task_has_no_running_child hold at FULL strength over all tables; their former counter-witnesses '
            '(an input failing in a later concurrency round with siblings RUNNING; the rerun that then exceeded the '
            'limit) are corpus regressions.',
    'note': 'Engine-level: one transaction = one step (in-process tx_lock atomicity); multi-process interleavings '
            'inside on_action_complete are serialised by the named lock and are not exhibited. Sub-workflow items '
            '(`workflow:`; the child succeeds / fails / is cancelled or stopped, children finish in any order) are '
            'generated in ~28 % of the cases and compared with the same model; after a rerun of the failed task INSIDE '
            'a child (_recursive_rerun) the model has no operation and only the statement monitors keep running '
            '(two known findings there). Rerun is modelled for ERROR tasks (the REST API refuses others). The '
            'outcome of every evaluation is an oracle of the run (EvalSpec), fixed for the whole history; YAQL/Jinja '
            'themselves are not modelled; an input the action refuses (check_parameters) counts as a failing input. '
            '`target:` evaluation and Action.instantiate, still done per item inside the scheduling loop, are outside '
            'the model and not generated.',
}
RULE = ('stream withitems: generated workflows with one with-items task (n = 0..8 items from the input, concurrency '
        'absent / literal 1..n+1 (or 0) / expression <% $.c %> / task-defaults, std.echo or std.noop, optional retry '
        'policy, optional downstream task reading task(t1).result) x per-item outcome tables (success/error/cancel per '
        'attempt) x schedules (random / fifo / lifo) x optional rerun(s) (reset on/off, at quiescence or as soon as '
        'the task is ERROR); ~30 % of the cases have SUB-WORKFLOW items (`workflow: sub x=<% $.i %>`, n <= 4, the child '
        'has one or two tasks, the outcome table drives the action of its last task: the child ends SUCCESS / ERROR / '
        'CANCELLED; a child may also be stopped with CANCELLED from outside; the executions of the task are then its '
        'child workflow executions, `result pos outcome` is the transaction in which the child becomes final, '
        'unhandled = completion jobs + child-completion messages in flight; all child-internal deliveries interleave '
        'with everything else), half of those with n >= 2 with an INNER rerun of the failed task of a failed child '
        '(while a sibling is RUNNING / after the parent task completed): from there on only the statement monitors '
        'read the run, the model has no such operation; '
        'x evaluation failures in ~40 % of the action cases (the action input of chosen item indexes '
        'fails to evaluate: division by zero inline / in an input dict / nested, conditional unknown function or '
        'variable, non-dict dynamic input, Jinja, or evaluates to parameters the action refuses - in the first '
        'portion or in a later concurrency round; the '
        'with-items expression fails, is not iterable or gives lists of unequal length; `concurrency` evaluates to an '
        'ill-typed value) and other shapes of the items (dict, string, nested list, two lists of equal length); '
        'every committed transaction is one evaluation point of the model comparison. '
        'non-trivial = n >= 2 and the items completed in an order different from their start order, or an '
        'evaluation failure struck while a sibling item was RUNNING; distinct = '
        'distinct (case, schedule). stream withitems-exh: all outcome assignments x all orders of item results and '
        'completion jobs for n <= 2 (quick) / n <= 4 (thorough); every non-empty set of failing item inputs x '
        'concurrency x all orders (+ rerun with and without reset) for n <= 2 / n <= 3; 22 specs with sub-workflow '
        'items (n = 2, concurrency absent / 1 / 2, six outcome assignments, all orders; rerun on/off after a failure).')
TRUSTED = [
    'harness/engine_driver.py seams (post-commit thread, RPC client, scheduler, executor, clock, uuid) and '
    'snapshot(); harness/withitems_stream.py event -> model-operation mapping',
    'SQLAlchemy/sqlite: a transaction is atomic; the named lock of WithItemsTask.on_action_complete serialises '
    'completions between processes (not exhibited in-process)',
    'python list.sort stability (get_task_execution_result) modelled by a stable insertion sort',
]

# Lean `_full_fails` witnesses, replayed on the real engine (must reproduce, with the known signature)
R = lambda p, o: {'op': 'result', 'pos': p, 'outcome': o}
H = {'op': 'handled'}
S = {'op': 'start'}
WITNESSES = [
    {'theorem': 'completes_iff_all_done_full_fails', 'n': 2, 'conc': None,
     'kind': 'cancelled-item-completes-task-before-all-items',
     'ops': [S, R(0, 'CANCELLED'), H]},
]
# former counter-witnesses of index_started_once / rerun_only_failed (fixed by /repo 494951d1) and of
# running_le_concurrency_all_tables / error_task_has_no_running_child (fixed by repo patch 30): now
# regressions in corpus/C07 (k1_*, k2_*, k4_*, k5_*) that must run without any monitor hit or disagreement


def witness_case(drv, w):
    """a real-engine case (outcome table + script) from a model operation sequence"""
    from harness import withitems_stream as ws
    args = {'n': w['n'], 'conc': w['conc'], 'retries': 0, 'ops': w['ops']}
    if w.get('eval'):
        args['eval'] = ws.eval_spec({'eval': w['eval']})
    states = drv.call('withitems.run', args)
    table = {}
    seen = {}
    prev = None
    for o, st in zip(w['ops'], states):
        if o['op'] == 'result':
            idx = prev['items'][o['pos']][0]
            k = seen.get(idx, 0)
            seen[idx] = k + 1
            table['%s:%d:%d' % (ws.TASK, idx, k)] = {'SUCCESS': ['value', 'v%d.%d' % (idx, k)],
                                                     'ERROR': ['error', 'e%d.%d' % (idx, k)],
                                                     'CANCELLED': ['cancel']}[o['outcome']]
        prev = st
    case = {'n': w['n'], 'conc_form': 'absent' if w['conc'] is None else 'literal', 'conc': w['conc'] or 0,
            'action': 'echo', 'retry': None, 'downstream': False, 'table': table, 'policy': 'fifo', 'reruns': [],
            'seed': 7}
    if w.get('eval'):
        case['eval'] = dict(w['eval'])
    return case, states


def replay_witnesses(ctx):
    """the model-level counter-witnesses of the three `_full_fails` theorems on the REAL engine"""
    from harness import withitems_stream as ws
    drv = ctx.driver()
    for w in WITNESSES:
        case, states = witness_case(drv, w)
        run = ws.Runner(case, script=w['ops']).run()
        ctx.count('withitems', 'witness:' + w['theorem'])
        ok = ws.compare(ctx, case, run, drv)
        ops_done = [e.op for e in run.events if e.op]
        hits = ws.monitors(case, run)
        kinds = {(sig or {}).get('kind') for (_, _, sig) in hits}
        ctx.evaluated('withitems', ['witness', w['theorem']], nontrivial=True)
        if run.script_failed is not None or len(ops_done) < len(w['ops']) or not ok:
            ctx.broken_tie('witness', w['theorem'],
                           'the counter-witness of %s could not be followed on the real engine (stuck at %s): the '
                           'model no longer describes the code' % (w['theorem'], run.script_failed))
            continue
        if w['kind'] not in kinds:
            ctx.broken_tie('witness', w['theorem'],
                           'the counter-witness of %s replays on the real engine but the statement monitor does not '
                           'fire (%s): theorem and monitor read the statement differently' % (w['theorem'], sorted(
                               k for k in kinds if k)))
        for (name, item, sig) in hits:
            ctx.violation('C07 witness %s on the real engine: monitor %s: %s' % (
                w['theorem'], name, json.dumps(item, default=str)[:300]),
                {'case': case, 'script': w['ops'], 'hit': [name, item]}, sig)


def exhaustive_specs(ctx, max_n, rerun_max_n, rerun_limit=40):
    """(n, concurrency, outcome assignment, rerun, order limit): ALL orders of the first round for every
    n <= max_n (n = 4: concurrency absent / 2 only and at most 200 orders each, to stay inside the time budget); with a rerun after
    the first round (reset on and off) for n <= rerun_max_n, at most `rerun_limit` orders each."""
    from harness import withitems_stream as ws
    specs = [(n, conc, outs, None, (200 if n >= 4 else None)) for (n, conc, outs) in ws.exhaustive_cases(max_n)
             if n < 4 or conc in (None, 2)]
    # with a rerun after the first round (only meaningful when something failed and nothing was cancelled)
    for (n, conc, outs) in ws.exhaustive_cases(rerun_max_n):
        if 'E' in outs and 'C' not in outs:
            for reset in (True, False):
                specs.append((n, conc, outs, {'reset': reset, 'when': 'quiescent'}, rerun_limit))
    # every non-empty set of failing item inputs x concurrency (absent, 1..n), all items succeed, all orders; then
    # the same with a rerun (reset on and off) after the task has failed
    for (n, conc, outs, bad) in ws.exhaustive_eval_cases(rerun_max_n):
        for rr in (None, {'reset': True, 'when': 'quiescent'}, {'reset': False, 'when': 'quiescent'}):
            specs.append((n, conc, outs, rr, rerun_limit, bad))
    # SUB-WORKFLOW items (n = 2; decision points: the run of each child's last action and the completion jobs): all
    # orders for chosen outcome assignments x concurrency absent / 1 / 2, and a parent rerun after a failed round
    for (n, conc, outs) in ws.exhaustive_cases(2):
        if n == 2 and conc in (None, 1, 2) and outs in ('SS', 'SE', 'ES', 'EE', 'CS', 'SC'):
            specs.append((n, conc, outs, None, None, None, True))
    for outs in ('SE', 'ES'):
        for reset in (True, False):
            specs.append((2, 1, outs, {'reset': reset, 'when': 'quiescent'}, rerun_limit, None, True))
    rng = ctx.rng
    rng.shuffle(specs)
    # deal the expensive specs (many orders: large n, no or a wide limit) evenly over the workers
    specs.sort(key=lambda sp: -(sp[0] * 10 + (9 if sp[1] is None else min(sp[1], 8))))
    return specs


def correspond(ctx):
    from vlib import par
    replay_witnesses(ctx)
    k = 14
    specs = exhaustive_specs(ctx, ctx.n(2, 4), ctx.n(2, 3))
    chunks = [{'n_cases': ctx.n(42, 180), 'specs': specs[i::k], 'limit': ctx.n(200, 220)} for i in range(k)]
    par.run_parallel(ctx, 'harness.withitems_stream', 'run_both_chunk', chunks)


def search(ctx):
    """a proof obligation / the correspondence no longer checks: look for a concrete failing input on the real
    code with the statement monitors on a widened population (all orders of all small cases, more random cases)."""
    from vlib import par
    k = 14
    specs = exhaustive_specs(ctx, 3, 3)
    par.run_parallel(ctx, 'harness.withitems_stream', 'run_exhaustive_chunk',
                     [{'specs': specs[i::k], 'limit': 150} for i in range(k)])
    if not ctx.violations:
        par.run_parallel(ctx, 'harness.withitems_stream', 'run_chunk', [{'n_cases': 150}] * k)


def replay(ctx, rep):
    """re-execute a replay file: a violation (case + schedule) or a `broken` file (the disagreeing cases)"""
    from harness import withitems_stream as ws
    if 'no_longer_checks' in rep:
        replay_witnesses(ctx)
        for b in rep['no_longer_checks']:
            d = b.get('detail')
            if b.get('kind') == 'correspondence' and isinstance(d, dict) and isinstance(d.get('case'), dict) \
                    and 'case' in d['case']:
                ws.run_one(ctx, d['case']['case'], ctx.driver(), d['case'].get('choices'),
                           script=d['case'].get('script'))
        return
    r = rep.get('replay', rep)
    ws.run_one(ctx, r['case'], ctx.driver(), r.get('choices'), script=r.get('script'))
