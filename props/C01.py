"""C01 — every run finishes with the outcome its definition prescribes."""
GEN = ['states']
MANIFEST = {
    'technique': 'Lean 4 theorems over an executable engine model checked against the real engine after every '
                 'event (refinement-style differential check) + quiescence/undeclared-error monitors on generated runs',
    'text': 'Model Mistral.Engine (start / start_task / on_action_complete / refresh jobs / completion check / '
            'dispatcher with backlog / pause / resume / stop; join logic from Mistral.Join). Theorems: verdict_rule '
            '(final state = CANCELLED if any task cancelled, SUCCESS iff every ERROR task is handled, else ERROR), '
            'next_tasks_rule, error_handled_iff (handled iff an on-error route fired), direct_join_gets_refresh, '
            'crash_only_in_refresh and no_crash_on_acyclic_partial (no event can raise an undeclared error on an acyclic '
            'definition; the cyclic case is the proved counter-witness C04.possibleRoute_full_fails). LIVENESS CLAUSE '
            '("never left RUNNING, or its tasks left waiting, with nothing pending") is now a theorem of the engine model, by '
            'invariants over every event history (deliveries in any order, both results of every action, pause / resume / '
            'stop at any point, no action lost at its executor - that is C20): live_inv_reachable (ALL definitions: every '
            'IDLE execution has a start request in flight, every RUNNING execution an action in flight, a RUNNING '
            'workflow whose executions are all completed has a completion check in flight), no_stuck_joinfree (every '
            'definition without joins), no_stuck_acyclic (joins all/one/N, forks, several activations: every acyclic '
            'definition with unique names, satisfiable join: N, fired routes among the transitions; ALL such histories) and '
            'waiting_join_has_wakeup_or_blocker (every WAITING join has a wake-up in flight or a blocker of smaller rank - the '
            'forward walk of find_indirectly_affected_task_executions is proved complete w.r.t. the backward recursion of '
            '_possible_route: affected_complete + waiting_verdict_blocked). The proof attempt found a genuine lost wake-up '
            '(a join re-opened by Task.defer kept processed=True; completing while PAUSED it was never continued by resume; '
            'a later join waited for ever): replayed event by event on the real engine, repaired by "fix: re-opening a join '
            'resets its processed flag" (repo_patches/12), the model follows the fixed code (invariant Fresh: no incomplete '
            'execution carries the processed flag) and the former counter-witness is a regression (corpus/C01, Lean example). '
            'ENGINE WITH COMMANDS (Mistral.Props.C01X): stepX_eq_step - on every command-free definition the engine model with '
            'engine commands (stepXg, sibling commands in clause order) IS Mistral.Engine.step, world by world, event by event; '
            'runX_eq_run; the transfer corollaries no_stuck_acyclicX, outcome_schedule_independentX, complete_at_quiescenceX, '
            'finished_is_inertX. The code sorts sibling commands (pySort, proved a rearrangement): invariance under that order '
            'is a driver check on every command-free program, not a theorem. verdict_rule is about the completion check, which the '
            'model with commands shares: Mistral.Props.C01Cmd.verdict_ruleX / verdict_rule_stepX state it on stepX for every '
            'definition with commands (+ fail_command_verdict, succeed_command_verdict: the command decides the outcome itself); '
            'crash_only_in_refreshX and no_crash_on_acyclic_partialX: with commands too, no event raises an undeclared error on an acyclic definition. '
            'Ties: the `core` stream (generated data-free programs x oracles x '
            'schedules (+pause/resume/stop): committed rows and multiset of pending deliveries of the REAL engine equal the '
            'model after EVERY event) and the new `live` stream (small acyclic definitions incl. partial joins with successors '
            'and several activations x random schedules with pause/resume on the REAL engine, model followed event by event; '
            'monitor: a quiescent real execution is never RUNNING; the model evaluates the invariants of the theorem on every '
            'prefix of the real history). "Only declared error types escape" and the liveness of '
            'programs with data flow, guards over variables, failing expressions and engine commands are decided by the '
            '`engine` stream monitors on the real engine, not by a theorem.',
        'note': 'Expressions (YAQL/Jinja), data flow, policies, with-items and sub-workflows are '
                'outside Mistral.Engine; reverse workflows have their own run model Mistral.Reverse (outcome theorems '
                'Mistral.Props.C04Rev.quiescent_outcome / started_run_outcome, tied by the C04 reverse streams). One event = one committed transaction (in-process atomicity via tx_lock); '
                'multi-process sub-transaction interleavings are not exhibited. Seams replaced by recorders: post-commit '
                'thread, RPC client, executor, scheduler dispatcher, clock, id generator. Liveness theorems: hypotheses '
                'namesUnique and joinsSatisfiable are what the validator guarantees; liveInGraph ties Spec.live to Spec.graph; '
                'walkBudgetOK is an artefact of the MODEL (its walk has a fuel, python has none); acyclicity + recursion budget '
                'as in no_crash_on_acyclic_partial (cyclic definitions can deadlock genuinely: t1 <-> t2 joins). The theorems '
                'say a delivery is PENDING, not that an outside scheduler eventually delivers it (fairness is assumed); the '
                'loss of an action at its executor is excluded (C20). Monitor-only for liveness: cyclic definitions, '
                'everything outside the data-free engine core.',
}
RULE = ('stream core: data-free single-activation direct workflows (forks, all/partial joins, literal guards, '
        'task-defaults, failing actions; 60% of the programs with ENGINE COMMANDS fail / succeed / pause / noop in on-clauses, '
        'model = Mistral.Engine.stepX) x oracles x random/fifo/lifo schedules (+ operator commands), model vs real '
        'after every event; stream engine: generated programs with data flow/guards/engine commands x oracles x '
        'schedules, monitors on the real traces; non-trivial = trace exercises a join, a guard, a handled error or '
        'an engine command; distinct = distinct (definition, oracle, schedule seed, commands); stream live: corpus '
        'of theorem counter-witnesses (model event lists replayed on the real engine) + small acyclic definitions '
        '(<=5 tasks, joins all/one/N with successors, guards that do not fire, 30% with a non-join task activated more '
        'than once) x oracle x random/fifo/lifo schedule x 0-2 pause/resume rounds on the real engine, model vs real '
        'after every event, stuck monitor at quiescence; non-trivial = a join or an operator command; distinct = '
        'distinct (definition, oracle, schedule seed, commands)')
TRUSTED = ['harness seams (post-commit thread, RPC client, executor, scheduler dispatcher, clock, ids) replaced by recorders',
           'translate/states.py']
LEAN_MODULES = ['Mistral.Props.C01', 'Mistral.Props.C01X', 'Mistral.Props.C01Cmd']


def correspond(ctx):
    from vlib import par
    par.run_parallel(ctx, 'harness.core_stream', 'run_chunk', [{'n_programs': ctx.n(12, 400), 'mode': 'plain'}] * 9
                     + [{'n_programs': ctx.n(12, 400), 'mode': 'mixed'}] * 5)
    par.run_parallel(ctx, 'harness.engine_stream', 'run_chunk',
                     [{'n_programs': ctx.n(18, 500), 'props': ['C01'], 'mode': 'plain'}] * 14)
    # liveness clause: theorem counter-witnesses replayed on the real engine + real runs with pause/resume on
    # small acyclic definitions (partial joins with successors, several activations) followed by the model
    par.run_parallel(ctx, 'harness.live_stream', 'run_chunk', [{'n_programs': ctx.n(12, 350)}] * 14)
    # reverse workflows ("direct or reverse"): the real engine on generated reverse definitions vs Mistral.Reverse
    # after every event + the outcome / requires monitors (model and theorems: Props/C04Rev)
    par.run_parallel(ctx, 'harness.reverse_stream', 'run_chunk',
                     [{'fn_programs': ctx.n(4, 80), 'rows_per_program': 6, 'engine_programs': ctx.n(8, 200)}] * 14)


def search(ctx):
    """a broken theorem / correspondence: look for a concrete failing input on the real engine: first the recorded
    histories on which it got stuck before a fix (real engine alone), then the disagreeing cases themselves run to
    the end under the monitors, then the monitors on a wider population"""
    from harness import boot
    boot.boot()
    from harness import engine_stream
    from harness import live_stream
    live_stream.search_corpus(ctx)
    from vlib import par
    engine_stream.search_from_core(ctx, ['C01'], 'plain')
    if ctx.violations:
        return
    par.run_parallel(ctx, 'harness.engine_stream', 'run_chunk',
                     [{'n_programs': 40, 'props': ['C01'], 'mode': 'plain'}] * 7 +
                     [{'n_programs': 30, 'props': ['C01'], 'mode': 'pause'}] * 7)
    if ctx.violations:
        return
    par.run_parallel(ctx, 'harness.reverse_stream', 'run_engine_chunk', [{'n_programs': 30, 'p_err': 0.2}] * 14)


def replay(ctx, rep):
    if isinstance(rep.get('replay'), dict) and rep['replay'].get('stream') == 'core':
        from harness import boot
        boot.boot()
        from harness import core_stream
        core_stream.replay(ctx, rep)
        return
    if isinstance(rep.get('replay'), dict) and str(rep['replay'].get('stream', '')).startswith('reverse'):
        from harness import reverse_stream
        return reverse_stream.replay(ctx, rep)
    if isinstance(rep.get('replay'), dict) and rep['replay'].get('stream') == 'live':
        from harness import live_stream
        live_stream.replay(ctx, rep)
        return
    from harness import engine_stream
    engine_stream.replay(ctx, rep, ['C01'])
