"""C01 — every run finishes with the outcome its definition prescribes."""
GEN = ['states']
MANIFEST = {
    'technique': 'WORK IN PROGRESS',
    'text': 'WORK IN PROGRESS',
    'note': '',
}
RULE = ('stream engine: generated direct-workflow programs x result oracles x schedules (random/fifo/lifo) on the '
        'real engine; non-trivial = the trace exercised a join, a guard, a handled error or an engine command; '
        'distinct = distinct (definition, oracle, schedule seed)')
TRUSTED = []


def correspond(ctx):
    from vlib import par
    k = 14
    par.run_parallel(ctx, 'harness.engine_stream', 'run_chunk',
                     [{'n_programs': ctx.n(25, 600), 'props': ['C01', 'C03', 'C04', 'C11'], 'mode': 'plain'}] * k)


def search(ctx):
    pass


def replay(ctx, rep):
    pass
