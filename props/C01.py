"""C01 — every run finishes with the outcome its definition prescribes."""
GEN = ['states']
MANIFEST = {
    'technique': 'Lean 4 theorems over an executable engine model checked against the real engine after every '
                 'event (refinement-style differential check) + quiescence/undeclared-error monitors on generated runs',
    'text': 'Model Mistral.Engine (start / start_task / on_action_complete / refresh jobs / completion check / '
            'dispatcher with backlog / pause / resume / stop; join logic from Mistral.Join). Theorems: verdict_rule '
            '(final state = CANCELLED if any task cancelled, SUCCESS iff every ERROR task is handled, else ERROR), '
            'next_tasks_rule, error_handled_iff (handled iff an on-error route fired), direct_join_gets_refresh (when a task '
            'completes in a RUNNING workflow every join that directly succeeds it and has a row gets a pending '
            'schedule-refresh operation in the same transaction: the core of the join wake-up protocol), '
            'crash_only_in_refresh and '
            'no_crash_on_acyclic_partial (no event can raise an undeclared error on an acyclic definition; the cyclic '
            'case is the proved counter-witness C04.possibleRoute_full_fails). The tie is the `core` stream: for '
            'generated data-free programs x result oracles x schedules (+pause/resume/stop) the committed rows and the '
            'multiset of pending deliveries of the REAL engine equal the model after EVERY event. The liveness clause '
            '("never left RUNNING with nothing pending") and "only declared error types escape" for programs with data '
            'flow, guards over variables, failing expressions and engine commands are decided by the `engine` stream '
            'monitors on the real engine (at quiescence every execution is final; every exception that escaped an entry '
            'point, post-commit operation or scheduler job is classified), not by a theorem.',
        'note': 'Expressions (YAQL/Jinja), data flow, policies, with-items, sub-workflows and reverse workflows are '
                'outside Mistral.Engine. One event = one committed transaction (in-process atomicity via tx_lock); '
                'multi-process sub-transaction interleavings are not exhibited. Seams replaced by recorders: post-commit '
                'thread, RPC client, executor, scheduler dispatcher, clock, id generator.',
}
RULE = ('stream core: data-free single-activation direct workflows (forks, all/partial joins, literal guards, '
        'task-defaults, failing actions) x oracles x random/fifo/lifo schedules (+ operator commands), model vs real '
        'after every event; stream engine: generated programs with data flow/guards/engine commands x oracles x '
        'schedules, monitors on the real traces; non-trivial = trace exercises a join, a guard, a handled error or '
        'an engine command; distinct = distinct (definition, oracle, schedule seed, commands)')
TRUSTED = ['harness seams (post-commit thread, RPC client, executor, scheduler dispatcher, clock, ids) replaced by recorders',
           'translate/states.py']
LEAN_MODULES = ['Mistral.Props.C01']


def correspond(ctx):
    from vlib import par
    par.run_parallel(ctx, 'harness.core_stream', 'run_chunk', [{'n_programs': ctx.n(12, 400), 'mode': 'plain'}] * 9
                     + [{'n_programs': ctx.n(12, 400), 'mode': 'mixed'}] * 5)
    par.run_parallel(ctx, 'harness.engine_stream', 'run_chunk',
                     [{'n_programs': ctx.n(18, 500), 'props': ['C01'], 'mode': 'plain'}] * 14)


def search(ctx):
    """a broken theorem / correspondence: look for a concrete failing input with the monitors on a wider population"""
    from vlib import par
    par.run_parallel(ctx, 'harness.engine_stream', 'run_chunk',
                     [{'n_programs': 40, 'props': ['C01'], 'mode': 'plain'}] * 7 +
                     [{'n_programs': 30, 'props': ['C01'], 'mode': 'pause'}] * 7)


def replay(ctx, rep):
    from harness import engine_stream
    engine_stream.replay(ctx, rep, ['C01'])
