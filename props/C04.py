"""C04 — no task before its prerequisites; a join runs exactly once."""
GEN = ['states']
MANIFEST = {
    'technique': 'Lean 4 theorems over a model of the join logic (+ engine invariants); differential check '
                 'against the real join-state function and the real engine on generated fork/join programs',
    'text': 'WORK IN PROGRESS',
    'note': '',
}
RULE = ('stream join: generated direct-workflow graphs (forks, all/one/N joins, on-error/on-complete feeds, '
        'task-defaults, cycles, engine commands) x synthetic task-row sets; non-trivial = a join verdict '
        'computed from >=1 row; distinct = distinct (graph, rows, join)')
TRUSTED = ['translate/states.py (AST read of states.py)',
           'SQLAlchemy/sqlite row listing; task rows are listed in id order when no sort key is given']


def correspond(ctx):
    from vlib import par
    k = 14
    par.run_parallel(ctx, 'harness.join_stream', 'run_chunk',
                     [{'n_programs': ctx.n(20, 250), 'rows_per_program': ctx.n(12, 25)}] * k)


def search(ctx):
    pass


def replay(ctx, rep):
    pass
