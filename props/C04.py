"""C04 — no task before its prerequisites; a join runs exactly once."""
GEN = ['states']
MANIFEST = {
    'technique': 'Lean 4 theorems over a model of the join logic (+ engine invariants); differential check '
                 'against the real join-state function and the real engine on generated fork/join programs',
    'text': 'Model Mistral.Join = find_inbound_task_specs / get_on_*_clause with task-defaults, '
            '_get_join_logical_state, _get_induced_join_state, _possible_route (fuel = recursion limit). Theorems for '
            'ALL graphs, row sets, join kinds: join_running_iff_count / _all (RUNNING exactly when N / all inbound tasks '
            'completed AND routed to the join), join_error_iff_count / _all (ERROR exactly when that number can no '
            'longer be reached), join_waiting_otherwise, join_no_inbound_runs, possibleRoute_terminates_partial '
            '(acyclic), possibleRoute_full_fails + cyc_join_state_undefined (an accepted definition on which the route '
            'search never returns: known finding B). Engine level (model Mistral.Engine, every reachable state, every '
            'next event): join_created_once_reachable (one row per join), join_inv_reachable (a join row is never IDLE '
            'and never the subject of a re-run request) and join_starts_only_when_ready: an execution of a join '
            'that is not RUNNING becomes RUNNING only through its own refresh job and only when the join verdict on the '
            'rows of that moment is RUNNING (hence, by join_running_iff_*, only after the required number of inbound '
            'tasks completed and routed to it); no trigger, start_task RPC, resume, result or completion check starts '
            'a join. Ties: stream join = the REAL _get_join_logical_state on generated '
            'specs with synthetic task rows in sqlite vs the model (state, cardinality, triggered_by, messages); '
            'stream core (engine model incl. Task.defer / _refresh_task_state vs real engine after every event); '
            'engine monitors: one row per join, a join leaves WAITING only when the required number of inbound rows '
            'routed to it, starts once (known finding: partial joins re-run by late branches). Reverse workflows: '
            'monitors only (requires-order and only-needed-tasks read on generated reverse runs).',
    'note': 'named-lock serialisation of Task.defer across processes is assumed; rows are listed in id order.',
}
RULE = ('stream join: generated direct-workflow graphs (forks, all/one/N joins, on-error/on-complete feeds, '
        'task-defaults, cycles, engine commands) x synthetic task-row sets; non-trivial = a join verdict '
        'computed from >=1 row; distinct = distinct (graph, rows, join)')
LEAN_MODULES = ['Mistral.Props.C04']
TRUSTED = ['translate/states.py (AST read of states.py)',
           'SQLAlchemy/sqlite row listing; task rows are listed in id order when no sort key is given']


def correspond(ctx):
    from vlib import par
    k = 14
    par.run_parallel(ctx, 'harness.join_stream', 'run_chunk',
                     [{'n_programs': ctx.n(14, 250), 'rows_per_program': ctx.n(10, 25)}] * k)
    par.run_parallel(ctx, 'harness.engine_stream', 'run_chunk',
                     [{'n_programs': ctx.n(10, 300), 'props': ['C04'], 'mode': 'plain'}] * 14)
    par.run_parallel(ctx, 'harness.core_stream', 'run_chunk', [{'n_programs': ctx.n(6, 200), 'mode': 'plain'}] * 14)


def search(ctx):
    """join logic / engine model no longer matches: look for an engine-level violation of the statement"""
    from vlib import par
    par.run_parallel(ctx, 'harness.engine_stream', 'run_chunk',
                     [{'n_programs': 40, 'props': ['C04'], 'mode': 'plain',
                       'gen_kw': {'p_fail': 0.2, 'p_guard': 0.4}}] * 14)


def replay(ctx, rep):
    from harness import engine_stream
    engine_stream.replay(ctx, rep, ['C04'])
