"""C04 — no task before its prerequisites; a join runs exactly once."""
GEN = ['states']
MANIFEST = {
    'technique': 'Lean 4 theorems over a model of the join logic (+ engine invariants); differential check '
                 'against the real join-state function and the real engine on generated fork/join programs',
    'text': 'Model Mistral.Join = find_inbound_task_specs / get_on_*_clause with task-defaults, '
            '_get_join_logical_state, _get_induced_join_state, _possible_route (fuel = recursion limit). Theorems for '
            'ALL graphs, row sets, join kinds: join_running_iff_count / _all (RUNNING exactly when N / all inbound tasks '
            'completed AND routed to the join), join_error_iff_count / _all (ERROR exactly when that number can no '
            'longer be reached), join_waiting_otherwise, join_no_inbound_runs, possibleRoute_terminates_partial '
            '(acyclic), possibleRoute_full_fails + cyc_join_state_undefined (an accepted definition on which the route '
            'search never returns: known finding B). Engine level (model Mistral.Engine, every reachable state, every '
            'next event): join_created_once_reachable (one row per join), join_inv_reachable (a join row is never IDLE '
            'and never the subject of a re-run request) and join_starts_only_when_ready: an execution of a join '
            'that is not RUNNING becomes RUNNING only through its own refresh job and only when the join verdict on the '
            'rows of that moment is RUNNING (hence, by join_running_iff_*, only after the required number of inbound '
            'tasks completed and routed to it); no trigger, start_task RPC, resume, result or completion check starts '
            'a join. ENGINE COMMANDS INCLUDED (Mistral.Props.C04X over Mistral.Engine.stepX = the engine model with fail / '
            'succeed / pause / noop commands, the dispatcher sort and the command backlog; every history): '
            'join_created_once_reachableX (a join task has at most one execution, it is never IDLE and carries its unique '
            'key - also when its command was saved to the backlog by a `pause` command and restored on resume; that case '
            'was the genuine defect join-created-idle, repaired by repo_patches/32, regression rjSpec / '
            'corpus/core/restored_join.json), stepXg_jx (the invariant JX is preserved by every event, for every order '
            'of sibling commands that only rearranges them), join_starts_only_when_readyX (with commands too, a join that is not RUNNING '
            'becomes RUNNING only through its own refresh job and only when the join verdict of that moment is RUNNING). Ties: stream join = the REAL _get_join_logical_state on generated '
            'specs with synthetic task rows in sqlite vs the model (state, cardinality, triggered_by, messages); '
            'stream core (engine model incl. Task.defer / _refresh_task_state vs real engine after every event); '
            'engine monitors: one row per join, a join leaves WAITING only when the required number of inbound rows '
            'routed to it, starts once (known finding: partial joins re-run by late branches). '
            'REVERSE WORKFLOWS: model Mistral.Reverse = get_task_requires (task + task-defaults, minus self), the graph '
            'search from the target (needed set), _is_satisfied_task, _find_next_commands / continue_workflow, '
            'all_errors_handled, and the run as a transition system over rows + pending deliveries (start with the '
            'inline completion check, dispatcher, run_task, executor, Task.complete incl. the paused case, '
            'check_and_complete, and the operator commands pause / resume / stop: Lifecycle.wfApply for the state, '
            'Workflow.resume -> continue_workflow() -> _continue_workflow with RunExistingTask for IDLE rows, '
            '_run_existing). Theorems '
            '(Mistral.Props.C04Rev) for ALL specs, targets and event histories: needed_iff_reach (the needed set is '
            'exactly the target and what it transitively requires), row_created_only_when_ready + '
            'requires_order_reachable (every task with an execution has every required task in SUCCESS; '
            'success_stays), only_needed_reachable, each_once_reachable (at most one execution per task), '
            'inv_init / inv_step / inv_reachable (all of these over histories that may contain pause / resume / '
            'stop anywhere); definition-time validation: checkIntegrity models '
            '_check_workflow_integrity incl. _check_requires_cycles (layer-by-layer resolution), '
            'accepted_wellformed_acyclic (accepted => every required task exists and requires has no cycle), '
            'validator_rounds_suffice, cyclic_definition_rejected (regression of the fixed finding: cycles, also '
            'through task-defaults requires, are rejected; a self-requirement is not); outcome: live_inv_reachable, '
            'quiescent_outcome / started_run_outcome (FULL STRENGTH: for every ACCEPTED definition, target and '
            'event history without operator commands, with nothing pending the run is ERROR with a failed task or SUCCESS with every needed '
            'task, the target included, succeeded; never left RUNNING), quiescent_outcome_acyclic (same under an '
            'explicit ranking), quiescent_error_iff, unvalidated_cycle_succeeds_without_target (what a cyclic '
            'definition would do if run: why the validator must reject it). '
            'Ties: stream reverse-fn = the REAL ReverseWorkflowController (continue_workflow, '
            '_find_task_specs_with_satisfied_dependencies, graph search, all_errors_handled, get_task_requires) on '
            'generated specs with synthetic rows in sqlite vs the model; stream reverse-valid = the REAL semantic '
            'validation of generated cyclic / acyclic / missing-requirement definitions vs checkIntegrity (verdict '
            'class ok / task-not-found / requires-cycle); stream reverse = the real engine under '
            'random/fifo/lifo schedules with operator commands (pause / resume / stop at random points) vs '
            'Mistral.Reverse.step after EVERY event (workflow state, every task row, multiset of pending '
            'deliveries, empty dispatcher backlog) + statement monitors on the same traces (row created / task started only '
            'with all requirements in SUCCESS, only needed tasks, one row and one action per task, final outcome).',
    'note': 'named-lock serialisation of Task.defer across processes is assumed; rows are listed in id order. '
            'Reverse model: data flow (inbound context), policies/retries, rerun are outside Mistral.Reverse; the '
            'outcome theorem is about histories without operator commands (a stopped run ends as told, a run left '
            'paused does not end); the dispatcher backlog is not in the model (never filled by a reverse run: '
            'checked by the stream); command ORDER (a DFS post-order that depends on hash order) is not modelled, lists '
            'denote sets; definitions stored before the cycle check (or loaded with validate=False) are not '
            're-validated at start: for those only quiescent_outcome_acyclic applies.',
}
RULE = ('stream join: generated direct-workflow graphs (forks, all/one/N joins, on-error/on-complete feeds, '
        'task-defaults, cycles, engine commands) x synthetic task-row sets; non-trivial = a join verdict '
        'computed from >=1 row; distinct = distinct (graph, rows, join); '
        'stream reverse-fn: generated reverse workflows (2-8 tasks, random requires DAGs in shuffled definition '
        'order, diamonds / chains / wide, task-defaults requires, string and list forms, 25% with a cycle or a '
        'self-requirement, 5% with a required name that is no task, unknown / missing target) x synthetic row sets (arbitrary states and duplicates, or a '
        'plausible snapshot of a run) x workflow state x with/without a task execution; non-trivial = rows present '
        'or a RunTask command produced; stream reverse-valid: every generated definition of both reverse streams '
        'through the real validator; non-trivial = cyclic, rejected or with a multi-requirement task; '
        'stream reverse: the same generator (8% cyclic, rejected at creation) x failing-task oracles x '
        'random/fifo/lifo schedules x operator commands (35% pause [+resume], 12% stop) on the real engine; '
        'non-trivial = >=2 task executions, a failing task or an operator command; '
        'distinct = distinct (definition, target, oracle, policy, schedule seed)')
LEAN_MODULES = ['Mistral.Props.C04', 'Mistral.Props.C04Rev', 'Mistral.Props.C04X']
TRUSTED = ['translate/states.py (AST read of states.py)',
           'networkx DiGraph.reverse / dfs_postorder_nodes (the node SET they return is compared with the model)',
           'SQLAlchemy/sqlite row listing; task rows are listed in id order when no sort key is given']


def correspond(ctx):
    from vlib import par
    k = 14
    par.run_parallel(ctx, 'harness.join_stream', 'run_chunk',
                     [{'n_programs': ctx.n(14, 70), 'rows_per_program': ctx.n(10, 25)}] * k)
    par.run_parallel(ctx, 'harness.engine_stream', 'run_chunk',
                     [{'n_programs': ctx.n(10, 90), 'props': ['C04'], 'mode': 'plain'}] * 14)
    par.run_parallel(ctx, 'harness.core_stream', 'run_chunk', [{'n_programs': ctx.n(6, 70), 'mode': 'plain'}] * 14)
    # reverse workflows: function level and engine level (harness/reverse_stream.py)
    par.run_parallel(ctx, 'harness.reverse_stream', 'run_chunk',
                     [{'fn_programs': ctx.n(12, 120), 'rows_per_program': ctx.n(8, 12),
                       'engine_programs': ctx.n(10, 100)}] * 14)


def search(ctx):
    """join logic / engine model no longer matches: look for an engine-level violation of the statement"""
    from harness import engine_stream
    from vlib import par
    engine_stream.search_from_core(ctx, ['C04'], 'plain')
    par.run_parallel(ctx, 'harness.engine_stream', 'run_chunk',
                     [{'n_programs': 40, 'props': ['C04'], 'mode': 'plain',
                       'gen_kw': {'p_fail': 0.2, 'p_guard': 0.4}}] * 14)
    # reverse clause: the statement monitors on a wider population of reverse runs
    par.run_parallel(ctx, 'harness.reverse_stream', 'run_engine_chunk', [{'n_programs': 40, 'p_err': 0.2}] * 14)


def replay(ctx, rep):
    if (rep.get('replay') or {}).get('stream') == 'reverse':
        from harness import reverse_stream
        return reverse_stream.replay(ctx, rep)
    from harness import engine_stream
    engine_stream.replay(ctx, rep, ['C04'])
