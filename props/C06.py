"""C06 — duplicate or redelivered messages have the effect of a single delivery.

Tie B streams
  executor        REAL DefaultExecutor.run_action over the whole cross-product of the decision table
                  (1008 cases, exhaustive in both tiers) vs Mistral.Executor.doRunAction; monitor = the
                  executor sentences of the statement.  + ExecutorServer's derivation of `redelivered`.
  dedup           REAL engine on a two-task workflow, random delivery sequences vs Mistral.Dedup.step;
                  start_workflow requests carrying ids vs Dedup.startWorkflow; the Lean counter-witness
                  of dup_start_task_rerun_full_fails replayed on the engine.  Mode `resume` (45 % of the
                  sequences): pause + resume while t1 is IDLE with its first_run=True request in flight
                  (re-queues start_task(first_run=False, rerun=False)); the original request, the re-queued
                  one(s) and copies of both in random orders, also after the task failed / was cancelled /
                  succeeded, mixed with explicit reruns; monitor = a repeated start request (and the second
                  of the two requests to start the IDLE task) changes no row and sends nothing.
  engine-dup      generated programs: duplicate-free run vs the same run with repeated deliveries /
                  heartbeat expiry / redelivered run_action requests; monitor = every repeated delivery is
                  a no-op on the committed rows and sends nothing; final rows equal.
"""
GEN = []
MANIFEST = {
    'technique': 'Lean 4 theorems over an executable model of the executor decision table and of the engine-side '
                 'idempotence logic (induction over arbitrary delivery sequences); exhaustive differential check of '
                 'the executor model against the real DefaultExecutor; differential check of the engine model and a '
                 'duplicate-injection monitor on the real engine',
    'text': 'Theorems: for EVERY input of the _do_run_action table a redelivered request for an action not marked '
            'safe_rerun is not run and exactly one error is reported; at most one result is handed to the engine '
            'client per run (a second ATTEMPT exists only after the first raised MistralException: _full_fails + '
            '_partial, and the engine-side rejection covers it). Engine model (one task, its action executions, the '
            'workflow id table), for ALL delivery sequences by induction: a result for a completed action is rejected '
            'and changes nothing; every action execution takes at most one result, whichever of heartbeat-expiry '
            'and genuine result comes second is rejected; a repeated first_run start request is a no-op; at most '
            'one action is dispatched and the downstream dispatch runs at most once per task; a repeated '
            'start_workflow with an id returns the existing execution. Requests to run an EXISTING task '
            '(first_run=False; Dedup.runExisting models _run_existing after repo fixes 258aaaae and 17f326b9, checks in the '
            'order of the code): the invariant "IDLE, or RUNNING with a live action execution, or completed" holds in every '
            'reachable state (start_inv_init/step/reachable), so a duplicated request that is NOT an explicit rerun '
            '(rerun=False, re-queued by Workflow.resume) is a no-op at ANY later point, after ANY deliveries, from ANY task '
            'state (dup_run_existing_noop); the original first_run=True request and the re-queued one can arrive in either '
            'order with the same result (started_start_requests_noop, first_run_and_resume_any_order); at most one action is '
            'dispatched per task over all sequences without explicit reruns, resume requests included (once_inv_*). FALSE '
            'only for EXPLICIT rerun requests (rerun=True, rerun_workflow) whose duplicate arrives after the restarted task '
            'completed again: dup_start_task_rerun_full_fails (rerun=true witness, replayed on the real engine, known '
            'finding); dup_start_task_rerun_partial gives the exact set of states (dupSafe) in both directions.',
    'note': 'One delivery = one transaction (tx_lock granularity); races inside a transaction between processes, '
            'oslo.messaging delivery and SQL semantics are trusted. Policies (retry/wait/pause-before) and '
            'with-items are outside the Dedup model (so are the states WAITING/DELAYED/PAUSED of a task: the invariant '
            'StartInv speaks about tasks without policies; with a retry/wait policy continue_task sets RUNNING and runs the '
            'task in one transaction); the rerun flag of the model is the `rerun` kwarg of the recorded start_task message '
            '(Workflow.resume: rerun=False, reset=True - checked by the stream; rerun_workflow: rerun=True); `redelivered` is '
            'taken from the SENDER-serialised context '
            '(the transport redelivery flag is not consulted by the oslo driver path) - recorded, not a theorem.',
}
RULE = ('executor: the complete cross-product redelivered x safe_rerun x 7 action behaviours x sync x id x client '
        'outcome(1st call) x client outcome(2nd call); non-trivial = unsafe redelivery or >=1 client call. '
        'dedup: random event sequences (3-12 events: first-run start, results ok/error/cancel of any existing action, '
        'checker pass, rerun request + its start message, duplicated sub-workflow results) generated against the '
        'real state; 45 % of them in mode resume: pause_workflow + resume_workflow once or twice while t1 is IDLE '
        '(each resume re-queues start_task(first_run=False, rerun=False, reset=True)), then the same event mix plus '
        'copies of every recorded first_run=False message (weight 5 of 17) and later pause/resume toggles; the flags '
        'first_run/rerun/reset handed to the model are the kwargs of the recorded message; witnesses P, P2 (rerun=True) '
        'and R1-R4 (resume request duplicated after the task failed / after the original request ran and the task failed / '
        'the other order / after the task was cancelled) every run; non-trivial = a rejected/refused delivery, a repeated start request or any '
        'first_run=False request; distinct = distinct (mode, event list). engine-dup: wfgen.gen_program (2-7 tasks, joins all only, optional sub-workflow), oracle with '
        'errors, modes dup/hb/rerun/redeliver, each rpc message repeated with p=0.35 once or twice at a random later '
        'point; non-trivial = >=1 repeated delivery or an expiry that hit a running action; distinct = distinct '
        '(yaml, oracle, policy, seeds, mode)')
TRUSTED = [
    'one delivery = one committed or rolled-back transaction (the in-process tx_lock granularity); SQLAlchemy/sqlite '
    'rollback and unique-key semantics; interleavings of two processes inside a transaction are not exhibited',
    'oslo.messaging: whether a client call that raised actually transmitted the message is unknown to the executor; '
    'the model counts a call as delivered iff it returned normally (theorem executor_reports_accepted_once covers the '
    'case that every attempted call is delivered)',
    'harness: post-commit operations and due jobs are run eagerly after each delivery; jsonschema meta-schema check '
    'memoised (definition validation is not under study); EngineWorld seams (harness/engine_driver.py)',
    'Dedup model excludes task policies and with-items; notFound branch of deliverResult is not exercised',
]
ASSUMPTIONS = ['heartbeat expiry is modelled as a checker pass in which every RUNNING action is expired']


def correspond(ctx):
    from harness import exec_stream
    from vlib import par
    exec_stream.run(ctx)
    k = 14
    par.run_parallel(ctx, 'harness.dup_stream', 'run_chunk',
                     [{'n_cases': ctx.n(14, 200), 'n_dedup': ctx.n(12, 170)}] * k)
    ctx.cov['exhaustive'] = True
    ctx.cov['exhaustive_note'] = ('stream executor enumerates the whole decision-table cross-product (1008 cases) '
                                  'in both tiers; streams dedup/engine-dup are sampled')


def search(ctx):
    """A proof or a correspondence no longer checks: the executor monitor already ran on the whole cross-product;
    widen the engine population (more programs, another seed) and let the duplicate-injection monitor look for a
    concrete failing run."""
    from vlib import par
    import random
    old = ctx.rng
    ctx.rng = random.Random('C06-search-%s' % ctx.seed)
    try:
        par.run_parallel(ctx, 'harness.dup_stream', 'run_chunk_search',
                         [{'n_cases': ctx.n(25, 120), 'salt': i} for i in range(14)])
    finally:
        ctx.rng = old


def replay(ctx, rep):
    from harness import boot
    boot.boot()
    r = rep['replay']
    stream = r.get('stream')
    if stream in ('executor', 'executor-server'):
        from harness import exec_stream
        if 'case' not in r:
            exec_stream.run_server(ctx)
            return
        obs, ran = exec_stream.run_impl(r['case'])
        print('replay executor case %s -> %s' % (r['case'], obs))
        for what, sig in exec_stream.monitor(r['case'], obs, ran):
            ctx.violation('executor: ' + what, r, sig)
    elif stream == 'engine-dup':
        from harness import dup_stream
        case = dict(r['case'])
        case.setdefault('defs', [])
        res = dup_stream.run_pair(case)
        print('replay engine-dup: hits=%s' % [h[0][:200] for h in res['hits']])
        for what, sig, detail in res['hits']:
            ctx.violation('engine-dup: ' + what, r, sig)
    elif stream == 'dedup':
        from harness import dup_stream
        if r.get('witness') in dup_stream.WITNESSES:
            print('replay witness %s -> dispatches again=%s' % (r['witness'],
                                                                dup_stream.replay_witness(ctx, r['witness'])))
        elif 'ids' in r:
            dup_stream.run_start_ids_fixed(ctx, r['ids'])
        elif 'case' in r:
            c = r['case']
            dup_stream.run_dedup_case(ctx, ctx.driver(), c['seed'], c['mode'], c['n_ev'], c['ev_seed'])
            print('replay dedup case %s: violations=%d' % (c, len(ctx.violations)))
    else:
        print('replay: unknown stream %r' % stream)
