"""C14 — definition validation is total; accepted definitions are stable and runnable.

Monitor (the part that carries "never an internal error, never hangs", which cannot be a Lean
theorem about Python): every parser / service / validate entry point on every document of a
structure-aware mutation stream must return or raise an HTTP-4xx Mistral exception within a time
limit; every accepted definition re-instantiated from to_dict(), from the stored row, and from the
text cut out of a workbook / workflow list must give the same observation.

Tie B: Model/Lang.lean `cutDef` vs parser._parse_def_from_wb, `normWfList` vs the in-place
normalisation of spec construction, `validateGraph`/`outbound`/`inbound`/`startTasks` vs
DirectWorkflowSpec / ReverseWorkflowSpec semantic validation.
"""
import hashlib
import json
import os
import time

from harness import lang_env as E
from harness import lang_gen as G

GEN = ['lang_tables', 'lang_schemas']
LEAN_MODULES = ['Mistral.Props.C14', 'Mistral.Props.C14Schema', 'Mistral.Props.C14Ctor']
MANIFEST = {
    'technique': 'Lean 4 theorems over a model of the workbook text cutter, spec-dict normalisation, the graph '
                 'checks of workflow validation and the JSON-schema level (a total interpreter of the schema keywords '
                 'mistral uses, run over the schemas regenerated from the real get_schema() of every spec class); '
                 'differential check of these models against the real functions (the schema interpreter against the '
                 'real jsonschema on every value the parsers validate); time-limited totality/stability monitor over a '
                 'structure-aware mutation stream on every parser/service/validate entry point',
    'text': 'Theorems: the definition text stored for a workbook member (_get_member_definition: the text cut of '
            '_parse_def_from_wb, verified against the parsed workbook, else the member dumped; repo patch 31) parses to '
            'exactly that member for EVERY workbook text, section and name, under the one assumption that a dumped '
            'member parses back to itself (cut_is_the_member; member_definition_total: no ValueError); the text cut '
            'alone is right for canonically rendered workbooks meeting P1, P2 (cutDef_correct_partial, then the '
            "author's text is kept: canonical_member_text_kept) and wrong otherwise (cutDef_correct_full_fails, the "
            'witnesses are regressions now: witnesses_repaired); '
            'normalisation is idempotent; graph validation accepted '
            'implies start task exists, every transition target / requirement exists, every join has enough inbound '
            'tasks and (reverse) requires has no cycle, also through task-defaults requires (accept_iff_wellformed with '
            'the validator rule of repo fix fd108744 = Mistral.Reverse.requiresAcyclic, complete and sound: '
            'requiresAcyclic_iff); accepted reverse definitions are runnable: accepted_reverse_never_blocked (for any '
            'existing target, whatever tasks have succeeded so far some not-yet-succeeded needed task has all its '
            'requirements succeeded) and accepted_reverse_run_finishes (every run of the model Mistral.Reverse '
            'without operator commands ends ERROR with a failed task or SUCCESS with the target succeeded); the graph '
            'stream carries cyclic-requires case classes (mutual, longer cycle, through task-defaults, '
            'self-requirement) and a monitor that no accepted reverse definition has a requires cycle. '
            'Schema level (Props.C14Schema, over the generated schemas): for every spec class, a value its '
            'schema accepts has the shape the constructor relies on without checking (tasks a non-empty dict of '
            'non-empty string-keyed dicts, type direct/reverse, join all/one/non-negative integer, retry dict with '
            'delay and count or one-line string, with-items / requires string or list of strings, on-clauses exactly '
            'the forms OnClauseSpec handles, policies expression or non-negative integer / bool, only declared string '
            'keys, name / base / version present ...: *_accept_shape, one theorem per class); a non-string key below '
            'patternProperties is a rejection; a schema is the conjunction of its keywords, allOf / anyOf / oneOf '
            'facts; every task / workbook member / list member of an accepted definition is instantiated '
            '(tasks_all_instantiated after repo patch 27, section_members_instantiated, list_members_instantiated). '
            'Constructor level (Props.C14Ctor): the modelled __init__ + validate_schema + validate_semantics of '
            'RetrySpec, PoliciesSpec, PublishSpec, OnClauseSpec, TaskDefaultsSpec, TaskSpec (direct/reverse), '
            'WorkflowSpec and WorkflowListSpec, in which every projection (data[k], .get on a non-dict, len, iteration, '
            'item assignment, [0], regex on a non-string) can get stuck, return a specification or a definition error '
            'for every value and every oracle of the regular expressions / expression grammars (constructor_total), '
            'each projection being justified by an *_accept_shape fact. Schema validation is total by construction '
            '(structural recursion, no $ref, the TypeError of a non-string key is part of the result). Hang-freedom, the '
            'expression / YAML / regex engines and re-read stability are decided by the monitor on the real code.',
    'note': 'totality of the whole entry points and hangs are monitor-only (time limit, sampled inputs); PyYAML, re, '
            'yaql, jinja2, sqlite are exercised but not modelled; jsonschema is modelled for the keyword subset that '
            'occurs (translator refuses anything else) and tied by the streams schema / schema-re / schema-eq; '
            'check_schema memoised by schema content (validated by stream seam)',
}
RULE = ('documents = bundled YAML + generated workflow lists/workbooks/action lists (direct/reverse, joins, policies, '
        'with-items, publish, on-clauses in string/list/dict/next+publish forms, task-defaults) + hand-written corner '
        'texts, each also mutated (wrong type, delete, extra key, odd name, bad expression, wrap, swap, text damage); '
        'every document goes to all three parsers and, when a parser accepts, to the services. A case is non-trivial '
        'when at least one entry point got past YAML parsing and schema type-of-root checks (verdict is not the same '
        'for all three parsers) or it was accepted; distinct = distinct text. cut/norm/graph streams: non-trivial '
        'when the item is found / a key is injected / the graph has a transition, join or requirement. memberdef: '
        'workbooks in 5 layouts +- comments, text damage, corner texts, soups x section x member/other names: model '
        'memberDefinition vs get_workflow_definition / get_action_definition, YAML oracle answered by the real '
        'parse_yaml / safe_yaml.dump; non-trivial = the parsed workbook has the member; yamlrt: every such member: '
        'parse_yaml(dump(member)) == member. schema stream: '
        'cases = (spec class, value) pairs: every call of BaseSpec.validate_schema the real parsers/services made on '
        'those documents (recorded), every node of every parsed document against the classes of its role (raw and '
        'with the name/version/type injections), random node x class pairs, ~220 hand-written corner values x every '
        'class; compared: accept/reject, TypeError reached, multiset of (path, failing keyword) of all errors; '
        'non-trivial = rejected or a dict; distinct = distinct (class, value). ctor: the same pairs for the 10 classes '
        'with a constructor model, accepted by the schema or not: real instantiate_spec(validate=True) vs the Lean '
        'constructor with oracle tables computed by the real _parse_cmd_and_input / _get_with_items_as_dict / '
        'expr.validate; compared: specification / definition error / internal error and the getters of the '
        'specification; non-trivial = a specification was built or the schema accepted the value. schema-re: every pattern x harvested keys/strings, alphabet '
        'soups, non-ASCII word/space characters; non-trivial = match. schema-eq: node pairs; non-trivial = equal.')
TRUSTED = [
    'totality ("never an internal error") and hang-freedom are NOT theorems: they are evaluated by the monitor on the '
    'sampled mutation stream; hangs are decided on CPU time of the check process (limit = max(5 s, 200 x the CPU time '
    'of validating the largest bundled definition, measured in the same process) and on CPU-time growth over size '
    'doublings for 17 input families; the wall-clock watchdog (>= 300 s) is an infrastructure guard only (exit 2); '
    'ReDoS / regex engine is not modelled',
    'PyYAML, python re, yaql, jinja2, sqlalchemy+sqlite are third-party and only exercised; jsonschema is modelled '
    '(Model/Schema.lean, written after jsonschema 4.x _keywords.py/_utils.py/_types.py for the validator class that '
    'jsonschema.validate picks, Draft 2020-12; the translator refuses another validator class, any keyword outside '
    'type/enum/minimum/minLength/minItems/min-/maxProperties/uniqueItems/pattern/required/properties/'
    'patternProperties/additionalProperties/items/allOf/anyOf/oneOf/not, $ref, and any regular expression other '
    'than the 8 known ones) and tied by correspondence, not proved equivalent; best_match / the error text are not '
    'modelled',
    'schema model: regular expressions are decided by a small matcher (Model/Schema.lean matchHere) over atoms '
    'produced by python\'s own regex parser, \\w / \\s tables read from the running python: tied by stream schema-re, '
    'nothing is proved about it; nan equals nan (PyYAML yields one nan object); uniqueItems is "no two equal elements" '
    '(the sorted fast path of _utils.uniq differs only for lists of numbers containing nan: compared on the verdict '
    'only); the order of the errors yielded before a TypeError by additionalProperties-with-schema follows a python '
    'set and is not compared; YAML values of no JSON type (date, bytes, set) are opaque',
    'constructor model (Model/SchemaCtor.lean): the regular expressions CMD_PTRN / PARAMS_PTRN / WITH_ITEMS_PTRN with '
    'json.loads, the expression grammars and is_uuid_like are an oracle (theorems hold for every oracle; the stream '
    'fills it from the real functions); inline parameter values are assumed not to be dicts (PARAMS_PTRN cannot '
    'produce one); the graph checks of validate_semantics are Model/Lang.lean, not part of ctorWorkflow; error '
    'classes are compared as definition error / internal error, not by exception type',
    'harness seams of the schema stream: a recorder around BaseSpec.validate_schema and parser.parse_yaml (off during '
    'the scaling probes); while the stream itself calls validate_schema on bare spec objects str(ValidationError) is '
    'the bare message (the pretty-printed text costs 17 ms per rejection; first 150 rejections use the real __str__)',
    'harness seam: jsonschema check_schema is memoised by schema content (stream `seam` compares with the un-memoised run)',
    'in-memory sqlite, one non-admin auth context, default configuration (validation_mode=enabled)',
    'regular-expression dependent parts of normalisation (inline `key=value` parameters) are given to the model as '
    'oracle bits computed by the real _parse_cmd_and_input',
    'cutDef_correct is about canonically rendered block-style workbooks (no blank/comment lines inside members); '
    'cut_is_the_member covers every text but treats PyYAML as an oracle (parse / dump over values compared with python '
    '==) with the hypothesis parse(dump m) = m, tied by stream yamlrt on the members seen, not proved; python == does '
    'not tell 1 from True / 1.0',
]
ASSUMPTIONS = ['skip_validation / validation_mode=disabled is outside the property (the user opted out of validation)']

LIMIT_Q = 1.0        # factor of the calibrated CPU-time limit (harness/lang_env.calibrate)


def env():
    st = E.setup()
    if 'cpu_limit' not in st:
        from vlib import core
        E.calibrate(G.bundled(core.REPO))
    return st


def infra_guard(fn):
    """the wall-clock watchdog is an infrastructure guard: exit 2, never a VIOLATION."""
    def wrapped(ctx, *a):
        try:
            return fn(ctx, *a)
        except E.WallTimeout:
            from vlib import core
            raise core.Infra('wall-clock watchdog (%.0f s) expired: machine overloaded or process blocked; '
                             'hang verdicts are taken on CPU time only' % E._state.get('wall_guard', 0))
    wrapped.__name__ = fn.__name__
    return wrapped


def text_hash(t):
    return hashlib.sha1(t.encode('utf-8', 'surrogatepass')).hexdigest()[:12]


# ---------------------------------------------------------------------------- the monitor
PARSERS = [('parse.wf', 'get_workflow_list_spec_from_yaml'), ('parse.wb', 'get_workbook_spec_from_yaml'),
           ('parse.act', 'get_action_list_spec_from_yaml')]


def sig_of(entry, kind, det):
    if kind == 'hang':
        return {'kind': 'hang', 'site': det['site'], 'line': det['line']}
    return {'kind': 'internal-error', 'exc': det['exc'], 'site': det['site'], 'line': det['line']}


def report_undeclared(ctx, entry, kind, det, text, origin):
    ctx.count('lang', 'outcome:%s:%s' % (entry, kind))
    what = ('%s does not finish within %s s of CPU time (limit calibrated as max(5 s, 200 x the largest bundled '
            'definition)) on a definition text' % (entry, det['limit_s'])) if kind == 'hang' else \
        '%s raises %s at %s [%s] instead of a definition error: %s' % (entry, det['exc'], det['site'], det['line'], det['msg'])
    ctx.violation(what, {'kind': 'doc', 'entry': entry, 'text': text, 'origin': origin, 'detail': det},
                  sig_of(entry, kind, det))


def stability(ctx, st, entry, text, origin, spec, members):
    """Re-instantiate from to_dict() (before and after use) and compare observations."""
    sp = st['sp']
    bad = 0
    for mname, mspec, how in members:
        try:
            # o = getters before any use; p = what the engine reads through get_publish(state), which merges
            # dictionaries of the spec in place (DESIGN 9-H); oa = getters after use
            d_before = E.dcopy(mspec.to_dict())
            o1 = E.observe(mspec)
            o1b = E.observe(mspec)
            p1 = E.publish_obs(mspec)
            p1b = E.publish_obs(mspec)
            oa = E.observe(mspec)
            d_after = E.dcopy(mspec.to_dict())
            s2 = how(E.dcopy(d_before))
            o2 = E.observe(s2)
            p2 = E.publish_obs(s2)
            s3 = how(E.dcopy(d_after))
            o3 = E.observe(s3)
            p3 = E.publish_obs(s3)
            # JSON round trip (what a DB column does)
            try:
                dj = json.loads(json.dumps(d_before))
                sj = how(dj)
                o4 = E.observe(sj)
                p4 = E.publish_obs(sj)
            except (TypeError, ValueError):
                o4, p4 = o1, p1
                ctx.count('stability', 'not-json-serialisable')
        except E.Hang:
            raise
        except Exception as e:
            (site, line), lib = E.site_of(e.__traceback__, st['pkg_dir'])
            ctx.violation('re-instantiating accepted %s member %r from its to_dict() raises %s at %s' % (entry, mname, type(e).__name__, site),
                          {'kind': 'doc', 'entry': entry, 'text': text, 'origin': origin, 'member': str(mname)},
                          {'kind': 'reread-raises', 'exc': type(e).__name__, 'site': site, 'line': line})
            bad += 1
            continue
        ctx.evaluated('stability', [entry, text_hash(text), str(mname)], nontrivial=True)
        if d_before != d_after:
            ctx.count('stability', 'to_dict-changed-by-use')
        for label, oref, ox in (('second-observation', o1, o1b), ('to_dict-before-use', o1, o2),
                                ('to_dict-after-use', oa, o3), ('json-roundtrip', o1, o4),
                                ('publish-second-call', p1, p1b), ('publish-to_dict-before-use', p1, p2),
                                ('publish-to_dict-after-use', p1, p3), ('publish-json-roundtrip', p1, p4)):
            if ox != oref:
                df = E.first_diff(oref, ox)
                ctx.violation('accepted %s member %r differs when re-read (%s) at %s: %r != %r' % (
                    entry, mname, label, df[0], df[1], df[2]),
                    {'kind': 'doc', 'entry': entry, 'text': text, 'origin': origin, 'member': str(mname),
                     'diff': [df[0], repr(df[1])[:200], repr(df[2])[:200]]},
                    reread_sig(label, df[0], df[1], df[2]))
                bad += 1
                break
    return bad


NON_JSON = ('<date>', '<datetime>', '<bytes>', '<set>', '<time>')


def non_json(*vals):
    return any(isinstance(v, str) and v.startswith(NON_JSON) for v in vals)


def reread_sig(label, path, a=None, b=None):
    if non_json(a, b):
        # a YAML timestamp / binary / set scalar inside a free-form value is stored as its str() by the JSON column
        return {'kind': 'reread-differs-non-json-scalar'}
    if '/<' in path:
        # a non-string mapping key (YAML int/bool/null/float key) is stringified by the JSON column
        return {'kind': 'reread-differs-non-string-key'}
    return {'kind': 'reread-differs', 'how': label, 'at': _gen_path(path)}


def _gen_path(p):
    """Generalise an observation path: drop member names below spec lists."""
    import re
    parts = p.split('/')
    out = []
    skip = False
    for x in parts:
        x = re.sub(r'^<(\w+)>.*$', r'<\1>', x)
        if skip:
            out.append('*')
            skip = False
            continue
        out.append(x)
        if x in ('__speclist__', 'graph', 'requires'):
            skip = True
    return '/'.join(out)[:120]


def members_of(st, entry, spec):
    sp = st['sp']
    lb = st['lang_base']
    from mistral.lang.v2 import actions as act_v2
    if entry == 'parse.wf':
        return [(w.get_name(), w, sp.get_workflow_spec) for w in spec.get_workflows()]
    if entry == 'parse.act':
        return [(a.get_name(), a, sp.get_action_spec) for a in spec.get_actions()]
    res = [('<workbook>', spec, lambda d: sp.get_workbook_spec(d, False))]
    if spec.get_workflows():
        res += [(w.get_name(), w, sp.get_workflow_spec) for w in spec.get_workflows()]
    if spec.get_actions():
        res += [(a.get_name(), a, sp.get_action_spec) for a in spec.get_actions()]
    return res


def obs2(x):
    """getters before use + what get_publish(state) yields."""
    o = E.observe(x)
    return {'getters': o, 'publish': E.publish_obs(x)}


def obs_eq(ctx, what, sigkind, o_expected, o_got, replay, extra_sig=None):
    if o_expected == o_got:
        return True
    df = E.first_diff(o_expected, o_got)
    if non_json(df[1], df[2]):
        sig = {'kind': 'reread-differs-non-json-scalar'}
    elif '/<' in df[0]:
        sig = {'kind': 'reread-differs-non-string-key'}
    else:
        sig = {'kind': sigkind, 'at': _gen_path(df[0])}
        sig.update(extra_sig or {})
    replay = dict(replay)
    replay['diff'] = [df[0], repr(df[1])[:200], repr(df[2])[:200]]
    ctx.violation('%s at %s: %r != %r' % (what, df[0], df[1], df[2]), replay, sig)
    return False


def layout_class(text, name, section):
    """Why a member's header line is not the bare `name:` line the cutter looks for."""
    import re
    for line in text.split('\n'):
        s = line.strip()
        if s == name + ':':
            return 'plain'
    for line in text.split('\n'):
        s = line.strip()
        if re.match(r'^[\'"]%s[\'"]\s*:' % re.escape(name), s):
            return 'quoted-name'
        if re.match(r'^\?\s*[\'"]?%s' % re.escape(name[:40]), s):
            return 'explicit-key'
        if re.match(r'^%s\s*:\s*#' % re.escape(name), s):
            return 'trailing-comment'
        if re.match(r'^%s\s+:' % re.escape(name), s):
            return 'space-before-colon'
        if re.match(r'^%s\s*:\s*[{\[]' % re.escape(name), s):
            return 'flow-style-member'
        if re.match(r'^%s\s*:\s*\S' % re.escape(name), s):
            return 'inline-value'
    if re.search(r'%s\s*{' % re.escape(section), text):
        return 'flow-style-section'
    return 'other'


def services_for(ctx, st, entry, text, origin, spec, limit):
    """Run the service-layer entry points for an accepted document and check the stored rows."""
    sp, db_api = st['sp'], st['db_api']
    rep = {'kind': 'doc', 'entry': entry, 'text': text, 'origin': origin}
    calls = {
        'parse.wf': [('svc.create_workflows', lambda: st['wf_service'].create_workflows(text)),
                     ('svc.update_workflows', lambda: st['wf_service'].update_workflows(text))],
        'parse.wb': [('svc.create_workbook_v2', lambda: st['wb_service'].create_workbook_v2(text)),
                     ('svc.update_workbook_v2', lambda: st['wb_service'].update_workbook_v2(text))],
        'parse.act': [('svc.create_actions', lambda: st['adhoc_actions'].create_actions(text)),
                      ('svc.update_actions', lambda: st['adhoc_actions'].update_actions(text))],
    }[entry]
    try:
        for sname, fn in calls:
            kind, det, val = E.guarded(fn, limit)
            ctx.evaluated('lang', None, k=1)
            ctx.count('lang', 'outcome:%s:%s' % (sname, kind if kind != 'declared' else det['cls']))
            if kind in ('undeclared', 'hang'):
                rep2 = dict(rep)
                rep2['entry'] = sname
                what = ('%s hangs' % sname) if kind == 'hang' else '%s raises %s at %s [%s] on a definition the parser accepted: %s' % (
                    sname, det['exc'], det['site'], det['line'], det['msg'])
                ctx.violation(what, rep2, sig_of(sname, kind, det))
                return
            if kind == 'declared':
                # the parser accepted; a 4xx from the service is a rejection (size limit, duplicate, ...)
                if det['cls'] not in ('SizeLimitExceededException', 'DBDuplicateEntryError', 'InputException',
                                      'InvalidActionException'):
                    ctx.count('lang', 'service-rejects-after-parser-accepts:' + det['cls'])
                return
        # ---- stored rows; compare with a *fresh* parse (the spec object handed in has been used by stability())
        fname = dict(PARSERS)[entry]
        spec = getattr(sp, fname)(text, validate=True)
        if entry == 'parse.wf':
            wfs = spec.get_workflows()
            for w in wfs:
                o1 = obs2(w)
                with db_api.transaction(read_only=True):
                    row = db_api.get_workflow_definition(w.get_name())
                    row_spec, row_def = E.dcopy(dict(row.spec)), row.definition
                o_row = obs2(sp.get_workflow_spec(row_spec))
                obs_eq(ctx, 'workflow %r re-instantiated from the stored row differs' % w.get_name(),
                       'stored-row-differs', o1, o_row, rep)
                ctx.evaluated('stored', [text_hash(text), w.get_name()], nontrivial=True)
                # the stored definition text of a member of a multi-workflow list
                kind, det, lst = E.guarded(lambda: sp.get_workflow_list_spec_from_yaml(row_def, validate=True), limit)
                if kind in ('undeclared', 'hang'):
                    report_undeclared(ctx, 'parse.stored-definition', kind, det, row_def, origin)
                elif kind != 'ok':
                    ctx.violation('definition text stored for workflow %r of an accepted list is itself not accepted: %s' % (w.get_name(), det),
                                  rep, {'kind': 'stored-definition-rejected', 'multi': len(wfs) != 1,
                                        'cls': (det or {}).get('cls') or (det or {}).get('exc')})
                else:
                    cut = [x for x in lst.get_workflows() if x.get_name() == w.get_name()]
                    if len(lst.get_workflows()) != 1 and len(wfs) != 1 or not cut:
                        ctx.violation('definition text stored for workflow %r holds %d workflows' % (w.get_name(), len(lst.get_workflows())),
                                      rep, {'kind': 'stored-definition-wrong-members'})
                    else:
                        obs_eq(ctx, 'workflow %r parsed from its stored (cut) definition text differs' % w.get_name(),
                               'cut-from-list-differs', o1, obs2(cut[0]), rep)
                    ctx.evaluated('cutlist', [text_hash(text), w.get_name()], nontrivial=len(wfs) != 1)
        elif entry == 'parse.wb':
            wb_name = spec.get_name()
            def wb_members(t, sec):
                # validate the cut text the way the workbook validated the member: as the only member of the
                # same section of a workbook (the list parsers apply a stricter schema to member values)
                w = sp.get_workbook_spec_from_yaml(t, validate=True)
                ms = w.get_workflows() if sec == 'workflows' else w.get_actions()
                return list(ms) if ms else []

            for secname, items, getdef, parse in (
                    ('workflows', spec.get_workflows(), db_api.get_workflow_definition,
                     lambda t: wb_members(t, 'workflows')),
                    ('actions', spec.get_actions(), db_api.get_action_definition,
                     lambda t: wb_members(t, 'actions'))):
                if not items:
                    continue
                for m in items:
                    o1 = obs2(m)
                    with db_api.transaction(read_only=True):
                        row = getdef('%s.%s' % (wb_name, m.get_name()))
                        row_spec, row_def = E.dcopy(dict(row.spec)), row.definition
                    how = sp.get_workflow_spec if secname == 'workflows' else sp.get_action_spec
                    obs_eq(ctx, 'workbook member %r re-instantiated from the stored row differs' % m.get_name(),
                           'stored-row-differs', o1, obs2(how(row_spec)), rep)
                    # "every workflow extracted from a workbook is the workflow written in the workbook"
                    cut_text = "version: '2.0'\nname: cutwb\n%s:\n%s" % (
                        secname, ''.join('  ' + l if l.strip() else l for l in row_def.splitlines(True)))
                    kind, det, lst = E.guarded(lambda: parse(cut_text), limit)
                    lay = layout_class(text, str(m.get_name()), secname + ':')
                    ctx.count('cutwb', 'layout:' + lay)
                    nontriv = True
                    if kind in ('undeclared', 'hang'):
                        report_undeclared(ctx, 'parse.cut-text', kind, det, cut_text, origin)
                    elif kind != 'ok' or len(lst) != 1 or lst[0].get_name() != m.get_name():
                        got = det if kind != 'ok' else [x.get_name() for x in lst]
                        clash = clash_class(text, str(m.get_name()), secname + ':')
                        ctx.violation('text cut out of workbook for %s member %r is not that member (layout %s, %s): %r -> %s' % (
                            secname, m.get_name(), lay, clash, row_def[:80], str(got)[:120]),
                            dict(rep, member=str(m.get_name()), cut=row_def[:500]),
                            {'kind': 'cut-from-workbook-wrong', 'layout': lay, 'clash': clash})
                    else:
                        clash = clash_class(text, str(m.get_name()), secname + ':')
                        obs_eq(ctx, 'workbook %s member %r parsed from the text cut out of the workbook differs (layout %s, %s)' % (
                            secname, m.get_name(), lay, clash), 'cut-from-workbook-differs', o1, obs2(lst[0]),
                            dict(rep, member=str(m.get_name()), cut=row_def[:500]), {'layout': lay, 'clash': clash})
                    ctx.evaluated('cutwb', [text_hash(text), str(m.get_name())], nontrivial=nontriv)
        elif entry == 'parse.act':
            for a in spec.get_actions():
                o1 = obs2(a)
                with db_api.transaction(read_only=True):
                    row = db_api.get_action_definition(a.get_name())
                    row_spec = E.dcopy(dict(row.spec))
                obs_eq(ctx, 'action %r re-instantiated from the stored row differs' % a.get_name(),
                       'stored-row-differs', o1, obs2(sp.get_action_spec(row_spec)), rep)
                ctx.evaluated('stored', [text_hash(text), a.get_name()], nontrivial=True)
    except E.Hang:
        raise
    except Exception as e:
        (site, line), lib = E.site_of(e.__traceback__, st['pkg_dir'])
        if site.startswith('mistral/'):
            ctx.violation('reading back stored rows of an accepted %s raises %s at %s [%s]: %s' % (entry, type(e).__name__, site, line, str(e)[:160]),
                          rep, {'kind': 'readback-raises', 'exc': type(e).__name__, 'site': site, 'line': line})
        else:
            raise
    finally:
        try:
            E.clean_db()
        except Exception:
            pass


def clash_class(text, name, section):
    """Candidate defect I classes: is there an earlier line equal to `name:` / an earlier `section`?"""
    res = []
    i = text.find(section)
    if i >= 0:
        # is the first occurrence the section header line itself?
        ls = text.rfind('\n', 0, i) + 1
        le = text.find('\n', i)
        le = len(text) if le < 0 else le
        if text[ls:le].strip() != section or ls != i:
            res.append('section-keyword-occurs-earlier')
        body = text[le + 1:].split('\n')
        hits = [k for k, l in enumerate(body) if l.strip() == name + ':']
        if len(hits) > 1 and not res:
            inds = [len(body[k]) - len(body[k].lstrip()) for k in hits]
            if inds[0] != min(inds):
                res.append('earlier-line-equals-member-name')
            elif inds.count(min(inds)) > 1:
                res.append('duplicate-member-key')
            else:
                res.append('later-line-equals-member-name')
    return '+'.join(res) or 'no-clash'


EXPR_FIELDS_TASK = ['input', 'publish', 'publish-on-error', 'publish-on-skip', 'keep-result', 'safe-rerun', 'wait-before',
                    'wait-after', 'timeout', 'pause-before', 'concurrency', 'fail-on']
EXPR_FIELDS_RETRY = ['count', 'delay', 'break-on', 'continue-on']
EXPR_FIELDS_WF = ['output', 'vars']
EXPR_FIELDS_DEFAULTS = ['safe-rerun', 'wait-before', 'wait-after', 'timeout', 'pause-before', 'concurrency', 'fail-on']
EXPR_FIELDS_ACTION = ['base-input', 'output']


def _top_strings(v):
    """what BaseSpec.validate_expr looks at: the string itself, or the string items / values one level down."""
    if isinstance(v, str):
        return [v]
    if isinstance(v, (list, tuple)):
        return [x for x in v if isinstance(x, str)]
    if isinstance(v, dict):
        return [x for x in v.values() if isinstance(x, str)]
    return []


def expr_fields_of(d, kind):
    """(field label, string) for every expression-bearing field of an accepted definition dict (the fields the
    language reference documents as accepting YAQL/Jinja), read from the *source* dict."""
    out = []

    def clause(lbl, c):
        # guards of on-clauses and advanced publish sections
        if isinstance(c, dict):
            pub = c.get('publish') if ('next' in c or 'publish' in c) else None
            if isinstance(pub, dict):
                for sec in ('branch', 'global', 'atomic'):
                    for x in _top_strings(pub.get(sec)):
                        out.append((lbl + '.publish.' + sec, x))
            nxt = c.get('next') if ('next' in c or 'publish' in c) else None
            if isinstance(nxt, dict):
                # `next: {task: <% guard %>}`: prepare_next_clause iterates the dict's keys, the guard is dropped
                for g in nxt.values():
                    if isinstance(g, str):
                        out.append((lbl + '.next-single-dict.guard', g))
            elif nxt is not None:
                clause(lbl + '.next', nxt)
        elif isinstance(c, list):
            for it in c:
                if isinstance(it, dict):
                    for g in it.values():
                        if isinstance(g, str):
                            out.append((lbl + '.guard', g))

    def policies(lbl, t, fields):
        for f in fields:
            for x in _top_strings(t.get(f)):
                out.append((lbl + f, x))
        r = t.get('retry')
        if isinstance(r, dict):
            for f in EXPR_FIELDS_RETRY:
                for x in _top_strings(r.get(f)):
                    out.append((lbl + 'retry.' + f, x))

    def wf(w):
        if not isinstance(w, dict):
            return
        for f in EXPR_FIELDS_WF:
            for x in _top_strings(w.get(f)):
                out.append(('wf.' + f, x))
        td = w.get('task-defaults')
        if isinstance(td, dict):
            policies('task-defaults.', td, EXPR_FIELDS_DEFAULTS)
            for c in ('on-success', 'on-error', 'on-complete', 'on-skip'):
                clause('task-defaults.' + c, td.get(c))
        for tn, t in (w.get('tasks') or {}).items() if isinstance(w.get('tasks'), dict) else []:
            if tn == 'version' or not isinstance(t, dict):
                continue
            policies('task.', t, EXPR_FIELDS_TASK)
            for c in ('on-success', 'on-error', 'on-complete', 'on-skip'):
                clause('task.' + c, t.get(c))

    def act(a):
        if not isinstance(a, dict):
            return
        for x in _top_strings(a.get('base-input')):
            out.append(('action.base-input', x))
        if isinstance(a.get('output'), str):
            out.append(('action.output', a['output']))

    if kind == 'parse.wf':
        for k, v in d.items():
            if k != 'version':
                wf(v)
    elif kind == 'parse.act':
        for k, v in d.items():
            if k != 'version':
                act(v)
    else:
        for k, v in (d.get('workflows') or {}).items() if isinstance(d.get('workflows'), dict) else []:
            if k != 'version':
                wf(v)
        for k, v in (d.get('actions') or {}).items() if isinstance(d.get('actions'), dict) else []:
            if k != 'version':
                act(v)
    return out


def check_expr_fields(ctx, st, entry, text, origin):
    """mechanism "expression syntax validated for every expression-bearing field": in an accepted definition every
    such field holds a syntactically valid expression (or no expression)."""
    from mistral import expressions as expr
    try:
        d = st['sp'].parse_yaml(text)
    except Exception:
        return
    if not isinstance(d, dict):
        return
    for lbl, s in expr_fields_of(d, entry):
        try:
            expr.validate(s)
        except st['exc'].DSLParsingException as e:
            import re
            glbl = re.sub(r'on-(success|error|complete|skip)', 'on-X', lbl)
            ctx.violation('%s accepted a definition whose %s holds a malformed expression %r: %s' % (entry, lbl, s[:80], str(e)[:80]),
                          {'kind': 'doc', 'entry': entry, 'text': text, 'origin': origin}, {'kind': 'accepted-invalid-expression', 'field': glbl})
        except Exception:
            pass
        ctx.count('exprfields', lbl)
        ctx.evaluated('exprfields', None)


def written_targets(c, parse_cmd):
    """(form label, targets the user wrote) of one on-clause value of the source YAML."""
    def name(x):
        return parse_cmd(x)[0] if isinstance(x, str) else x

    def of_list(v):
        out = []
        for it in v:
            if isinstance(it, dict):
                out += [name(k) for k in it.keys()]
            else:
                out.append(name(it))
        return out
    if isinstance(c, str):
        return 'single', [name(c)]
    if isinstance(c, list):
        return 'list', of_list(c)
    if isinstance(c, dict):
        if 'next' in c or 'publish' in c:
            n = c.get('next')
            if n is None:
                return 'adv-none', []
            if isinstance(n, str):
                return 'adv-single', [name(n)]
            if isinstance(n, dict):
                return 'adv-single-guarded', [name(k) for k in n.keys()]
            return 'adv-list', of_list(n)
        return 'single-guarded', [name(k) for k in c.keys()]
    return 'other', []


def check_transitions(ctx, st, entry, text, origin, spec):
    """the transitions of an accepted workflow are the transitions written (every on-clause of every task and of
    task-defaults, whatever its syntactic form)."""
    try:
        d = st['sp'].parse_yaml(text)
    except Exception:
        return
    if not isinstance(d, dict):
        return
    parse_cmd = st['lang_base'].BaseSpec._parse_cmd_and_input
    if entry == 'parse.wf':
        wfs = [(w.get_name(), w, d.get(w.get_name())) for w in spec.get_workflows()]
    elif entry == 'parse.wb' and spec.get_workflows():
        src = d.get('workflows') if isinstance(d.get('workflows'), dict) else {}
        wfs = [(w.get_name(), w, src.get(w.get_name())) for w in spec.get_workflows()]
    else:
        return
    for wname, w, src in wfs:
        if not isinstance(src, dict) or w.get_type() != 'direct' or not isinstance(src.get('tasks'), dict):
            continue
        owners = [(tn, src['tasks'].get(tn), w.get_tasks()[tn]) for tn in w.get_tasks().item_keys()]
        if isinstance(src.get('task-defaults'), dict) and w.get_task_defaults() is not None:
            owners.append(('<task-defaults>', src['task-defaults'], w.get_task_defaults()))
        for tn, tsrc, tspec in owners:
            if not isinstance(tsrc, dict) or tspec is None:
                continue
            for c, getter in (('on-success', 'get_on_success'), ('on-error', 'get_on_error'),
                              ('on-complete', 'get_on_complete'), ('on-skip', 'get_on_skip')):
                if c not in tsrc or tsrc[c] is None:
                    continue
                try:
                    form, written = written_targets(tsrc[c], parse_cmd)
                    oc = getattr(tspec, getter)()
                    got = [x[0] for x in oc.get_next()] if oc is not None else []
                except Exception:
                    continue
                ctx.evaluated('transitions', None)
                ctx.count('transitions', 'form:' + form)
                if got != written:
                    ctx.violation('accepted workflow %r: %s of %r written as %r (form %s) yields transitions %r, written %r' % (
                        wname, c, tn, tsrc[c], form, got, written),
                        {'kind': 'doc', 'entry': entry, 'text': text, 'origin': origin},
                        {'kind': 'accepted-transition-lost', 'form': form})


def check_tasks_kept(ctx, st, entry, text, origin, spec):
    """Statement "an accepted definition … is the same definition (tasks, …)": every key of the `tasks` section of
    an accepted workflow is a task of the specification; every member of the `workflows` / `actions` section of an
    accepted workbook and of an accepted workflow / action list is a member of the specification.  Model side
    (Tie B of `specListMembers` / `listSpecMembers`): the keys the constructors instantiate, through the driver."""
    from harness import schema_stream as S
    try:
        d = st['sp'].parse_yaml(text)
    except Exception:
        return
    if not isinstance(d, dict):
        return
    # (label, written dict, keys of the specification, top-level list?)
    sections = []
    wfs = []
    if entry == 'parse.wf':
        sections.append(('<workflow list>', d, [w.get_name() for w in spec.get_workflows()], True))
        wfs = [(w.get_name(), w, d.get(w.get_name())) for w in spec.get_workflows()]
    elif entry == 'parse.act':
        sections.append(('<action list>', d, [a.get_name() for a in spec.get_actions()], True))
    elif entry == 'parse.wb':
        if isinstance(d.get('workflows'), dict) and spec.get_workflows():
            sections.append(('workflows', d['workflows'], list(spec.get_workflows().item_keys()), False))
            wfs = [(w.get_name(), w, d['workflows'].get(w.get_name())) for w in spec.get_workflows()]
        if isinstance(d.get('actions'), dict) and spec.get_actions():
            sections.append(('actions', d['actions'], list(spec.get_actions().item_keys()), False))
    for wname, w, src in wfs:
        if isinstance(src, dict) and isinstance(src.get('tasks'), dict):
            sections.append(('tasks of %r' % (wname,), src['tasks'], list(w.get_tasks().item_keys()), False))
    for label, src, got, top in sections:
        # what the user wrote: every entry, except the version of the document / the marker of a workbook section
        written = [k for k, v in src.items() if not (k == 'version' and (top or not isinstance(v, dict)))]
        try:
            model = ctx.driver().call('schema.members', {'doc': S.enc(src), 'list': top})
        except S.Untransportable:
            continue
        ctx.evaluated('taskskept', [text_hash(text), label], nontrivial=len(written) > 1)
        ctx.count('taskskept', 'section:' + label.split(' ')[0])
        if model != got:
            ctx.disagree('taskskept', {'text': text, 'section': label}, model, got)
        lost = [k for k in written if k not in got]
        if lost:
            ctx.count('taskskept', 'lost:%s' % ','.join(map(str, lost)))
            ctx.violation('accepted definition, %s: the member(s) %r written in the section are not part of the '
                          'specification (never validated, never run); members of the specification: %r' % (
                              label, lost, got),
                          {'kind': 'doc', 'entry': entry, 'text': text, 'origin': origin},
                          {'kind': 'accepted-task-lost', 'names': sorted(map(str, lost))})


def check_no_alias_sharing(ctx, st, text, origin):
    """mechanism "YAML loaded with a hardened loader (no anchors/aliases)": the loaded document is a tree, no
    container object is reachable through two paths (which is what `*alias` / `<<: *alias` expansion produces)."""
    if '*' not in text and '&' not in text:
        return
    kind, det, d = E.guarded(lambda: st['sp'].parse_yaml(text), LIMIT_Q)
    if kind != 'ok':
        return
    seen = set()
    stack = [d]
    shared = False
    n = 0
    while stack and n < 200000:
        x = stack.pop()
        n += 1
        if isinstance(x, (dict, list)):
            if id(x) in seen and x:
                shared = True
                break
            seen.add(id(x))
            stack.extend(x.values() if isinstance(x, dict) else x)
    ctx.count('lang', 'alias-check')
    if shared:
        ctx.violation('the YAML loader expanded an anchor/alias: the loaded definition shares a container between two places',
                      {'kind': 'doc', 'entry': 'parse_yaml', 'text': text, 'origin': origin}, {'kind': 'yaml-alias-expanded'})


def run_doc(ctx, st, text, origin, limit, do_services=True, do_stability=True):
    """All parser entry points on one text; services + stored rows for accepted ones."""
    sp = st['sp']
    verdicts = {}
    accepted = []
    if os.environ.get('C14_TRACE'):
        import sys
        sys.stderr.write('%.1f %s %d\n' % (time.time(), origin, len(text)))
        sys.stderr.flush()
    for entry, fname in PARSERS:
        fn = getattr(sp, fname)
        kind, det, spec = E.guarded(lambda: fn(text, validate=True), limit)
        verdicts[entry] = kind if kind != 'declared' else det['cls']
        ctx.count('lang', 'outcome:%s:%s' % (entry, verdicts[entry]))
        if kind in ('undeclared', 'hang'):
            report_undeclared(ctx, entry, kind, det, text, origin)
        elif kind == 'ok' and spec is None:
            verdicts[entry] = 'returned-None'
            d = None
            try:
                d = sp.parse_yaml(text)
            except Exception:
                pass
            ver = d.get('version') if isinstance(d, dict) else None
            ctx.violation('%s returns None (neither a specification nor a definition error) for version %r; the service then fails with AttributeError' % (entry, ver),
                          {'kind': 'doc', 'entry': entry, 'text': text, 'origin': origin},
                          {'kind': 'parser-returns-none', 'entry': entry, 'version_type': type(ver).__name__,
                           'quoted_2.0': ver == '2.0'})
        elif kind == 'ok':
            accepted.append((entry, spec))
    nontrivial = bool(accepted) or len(set(verdicts.values())) > 1 or \
        any(v not in ('DSLParsingException',) for v in verdicts.values())
    ctx.evaluated('lang', text_hash(text), nontrivial=nontrivial, k=len(PARSERS))
    check_no_alias_sharing(ctx, st, text, origin)
    for entry, spec in accepted:
        ctx.count('lang', 'accepted:' + entry)
        check_expr_fields(ctx, st, entry, text, origin)
        check_transitions(ctx, st, entry, text, origin, spec)
        check_tasks_kept(ctx, st, entry, text, origin, spec)
        if not do_stability:
            continue
        kind, det, _ = E.guarded(lambda: stability(ctx, st, entry, text, origin, spec, members_of(st, entry, spec)), limit * 4)
        if kind in ('undeclared', 'hang'):
            ctx.violation('observing / re-instantiating an accepted %s definition fails: %s' % (entry, det),
                          {'kind': 'doc', 'entry': entry, 'text': text, 'origin': origin},
                          {'kind': 'observe-fails', 'exc': (det or {}).get('exc', 'hang'), 'site': (det or {}).get('site', '')})
        if do_services:
            services_for(ctx, st, entry, text, origin, spec, limit)
    return verdicts, accepted


# ---------------------------------------------------------------------------- document population
def targeted_expr_docs():
    """one document per expression-bearing field holding a malformed expression: each must be rejected."""
    bad = "'<% $. %>'"
    T = "version: '2.0'\nwf:\n%s  tasks:\n    t1:\n      action: std.noop\n%s"
    docs = []
    for f in ('output', 'vars'):
        docs.append(('wf.' + f, T % ("  %s: {k: %s}\n" % (f, bad), '')))
    for f in ('input', 'publish', 'publish-on-error', 'publish-on-skip'):
        docs.append(('task.' + f, T % ('', "      %s: {k: %s}\n" % (f, bad))))
    for f in EXPR_FIELDS_TASK[4:]:
        docs.append(('task.' + f, T % ('', "      %s: %s\n" % (f, bad))))
        if f != 'keep-result':
            docs.append(('task-defaults.' + f, T % ("  task-defaults:\n    %s: %s\n" % (f, bad), '')))
    for f in EXPR_FIELDS_RETRY:
        other = {'count': 'delay: 1', 'delay': 'count: 1'}.get(f, 'count: 1, delay: 1')
        docs.append(('task.retry.' + f, T % ('', "      retry: {%s: %s, %s}\n" % (f, bad, other))))
        docs.append(('task-defaults.retry.' + f, T % ("  task-defaults:\n    retry: {%s: %s, %s}\n" % (f, bad, other), '')))
    docs.append(('task.retry.oneline', T % ('', "      retry: count=3 delay=<% $. %>\n")))
    docs.append(('task.with-items', T % ('', "      with-items: i in <% $. %>\n")))
    docs.append(('task.action.inline', "version: '2.0'\nwf:\n  tasks:\n    t1:\n      action: std.echo output=<% $. %>\n"))
    docs.append(('task.workflow.inline', "version: '2.0'\nwf:\n  tasks:\n    t1:\n      workflow: sub p=<% $. %>\n"))
    for c in ('on-success', 'on-error', 'on-complete', 'on-skip'):
        docs.append(('task.%s.guard' % c, T % ('', "      %s: [{t1: %s}]\n" % (c, bad))))
        docs.append(('task.%s.next.guard' % c, T % ('', "      %s: {next: [{t1: %s}]}\n" % (c, bad))))
        docs.append(('task.%s.next-single-dict.guard' % c, T % ('', "      %s: {next: {noop: %s}}\n" % (c, bad))))
        docs.append(('task-defaults.%s.next-single-dict.guard' % c, T % ("  task-defaults:\n    %s: {next: {noop: %s}}\n" % (c, bad), '')))
        docs.append(('task-defaults.%s.guard' % c, T % ("  task-defaults:\n    %s: [{t1: %s}]\n" % (c, bad), '')))
        for sec in ('branch', 'global', 'atomic'):
            docs.append(('task.%s.publish.%s' % (c, sec), T % ('', "      %s: {publish: {%s: {k: %s}}}\n" % (c, sec, bad))))
    A = "version: '2.0'\nact:\n  base: std.echo%s\n%s"
    docs.append(('action.base.inline', A % (' output=<% $. %>', '')))
    docs.append(('action.base-input', A % ('', "  base-input: {output: %s}\n" % bad)))
    docs.append(('action.output', A % ('', "  output: %s\n" % bad)))
    return docs


def run_targeted(ctx, st, limit):
    for lbl, text in targeted_expr_docs():
        verdicts, acc = run_doc(ctx, st, text, 'targeted-badexpr:' + lbl, limit)
        ctx.count('lang', 'origin:targeted')
        want = 'parse.act' if lbl.startswith('action') else 'parse.wf'
        if any(e == want for e, _ in acc):
            import re
            ctx.violation('%s accepted a definition whose %s holds the malformed expression <%% $. %%>' % (want, lbl),
                          {'kind': 'doc', 'entry': want, 'text': text, 'origin': 'targeted-badexpr:' + lbl},
                          {'kind': 'accepted-invalid-expression', 'field': re.sub(r'on-(success|error|complete|skip)', 'on-X', lbl)})
        elif verdicts.get(want) not in ('YaqlGrammarException', 'ExpressionGrammarException', 'JinjaGrammarException'):
            # rejected for another reason: the document is not a test of that field
            ctx.count('lang', 'targeted-rejected-otherwise:%s:%s' % (lbl, verdicts.get(want)))


def seeds(ctx, st):
    """(origin, kind, dict, text) valid seed definitions: bundled + generated, accepted by the real parser."""
    from vlib import core
    sp = st['sp']
    out = []
    for rel, text in G.bundled(core.REPO):
        try:
            d = sp.parse_yaml(text)
        except Exception:
            d = None
        out.append(('bundled:' + rel, None, d if isinstance(d, dict) else None, text))
    return out


def kind_of_dict(d):
    if not isinstance(d, dict):
        return None
    if 'workflows' in d or 'actions' in d or 'name' in d:
        return 'wb'
    for k, v in d.items():
        if k != 'version' and isinstance(v, dict):
            return 'act' if 'base' in v else 'wf'
    return 'wf'


@infra_guard
def correspond(ctx):
    # ---- A. "a run behaves identically after an engine restart or cache eviction": a running execution re-reads
    # ITS OWN stored specification even when the definition was replaced meanwhile (stream defupdate, real engine)
    from vlib import par
    if not os.environ.get('C14_SKIP_DEFUPDATE'):      # measurement knob only (CPU accounting of the sequential part)
        par.run_parallel(ctx, 'harness.defupdate_stream', 'run_chunk', [{'n_cases': ctx.n(5, 120)}] * 14)
    st = env()
    from harness import schema_stream as S
    S.install(st)              # records every (spec class, data) the real parsers / services validate
    rng = ctx.rng
    limit = LIMIT_Q
    t_start = time.time()
    stages = ctx.cov.setdefault('stage_cpu_s', {})
    _last = [time.process_time()]

    def stage(name):
        now = time.process_time()
        stages[name] = round(stages.get(name, 0.0) + now - _last[0], 1)
        _last[0] = now
    budget = ctx.n(85, 660)           # seconds for the lang stream
    # ---- 0. corpus: replay files of past findings / counter-witnesses (run first)
    import glob
    for f in sorted(glob.glob(os.path.join(os.path.dirname(os.path.dirname(os.path.abspath(__file__))), 'corpus', 'C14', '*.json'))):
        with open(f) as fh:
            rep = json.load(fh)
        r = rep.get('replay', {})
        if r.get('kind') == 'doc' and 'text' in r:
            run_doc(ctx, st, r['text'], 'corpus:' + os.path.basename(f), limit)
            ctx.count('lang', 'origin:corpus')
    stage('corpus')
    # ---- 1. bundled documents (always all of them)
    bundled = seeds(ctx, st)
    pool = []                          # (origin, dict) accepted seed dicts for mutation
    for origin, _, d, text in bundled:
        big = len(text) > 40000 and not ctx.thorough()
        if big:
            ctx.count('lang', 'bundled-big-parsers-only')
        verdicts, acc = run_doc(ctx, st, text, origin, limit, do_services=not big, do_stability=not big)
        ctx.count('lang', 'origin:bundled')
        if acc and d is not None and len(text) < 20000:
            pool.append((origin, d))
    stage('bundled')
    # ---- 2. hand-written corner texts (always all of them)
    for name, text in G.TEXT_DOCS:
        run_doc(ctx, st, text, 'corner:' + name, limit)
        ctx.count('lang', 'origin:corner')
    run_targeted(ctx, st, limit)
    # ---- 2b. scaling probes ("never hangs", decided on CPU-time growth, not on a wall-clock limit)
    stage('corner+targeted')
    S.pause()                  # the probes measure CPU time of the unmodified validation
    try:
        run_probes(ctx, st)
    finally:
        S.resume()
    stage('probes')
    # ---- 3. generated valid definitions in all syntactic forms
    n_gen = ctx.n(120, 1500)
    gen_pool = []
    for i in range(n_gen):
        r = rng.random()
        g = G.gen_wf_list(rng) if r < 0.5 else G.gen_workbook(rng, clash=rng.random() < 0.15) if r < 0.85 \
            else G.gen_action_list(rng)
        style = rng.choice(['block', 'block', 'indent4', 'header', 'flowish'])
        text = G.dump(g['dict'], style=style)
        if rng.random() < 0.25 and style != 'flowish':
            text = G.decorate(text, rng)
        verdicts, acc = run_doc(ctx, st, text, 'gen:%s:%s' % (g['kind'], style), limit)
        ctx.count('lang', 'origin:generated:' + g['kind'])
        ctx.count('lang', 'generated-accepted' if acc else 'generated-rejected')
        if acc:
            gen_pool.append(('gen:' + g['kind'], g['dict']))
        if i < 2:
            ctx.sample({'stream': 'lang', 'origin': 'gen:' + g['kind'], 'text': text[:400], 'verdicts': verdicts})
    pool += gen_pool
    stage('generated')
    # ---- 4. mutants
    n_mut = ctx.n(1000, 50000)
    done = 0
    while done < n_mut and time.time() - t_start < budget and pool:
        origin, d = rng.choice(pool)
        r = rng.random()
        if r < 0.8:
            m, desc = G.mutate_struct(d, rng)
            if rng.random() < 0.15:
                m, desc2 = G.mutate_struct(m, rng)
                desc = {'op': desc['op'] + '+' + desc2['op'], 'at': desc.get('at')}
            try:
                text = G.dump(m, rng=rng)
            except Exception as e:     # the mutant cannot be written as YAML at all
                ctx.count('lang', 'mutant-not-dumpable')
                continue
            ctx.count('lang', 'mut:%s' % desc['op'])
            ctx.count('lang', 'mut-at:%s' % desc.get('at'))
            if 'v' in desc:
                ctx.count('lang', 'mut-v:%s' % desc['v'])
            org = 'mut:%s<%s' % (desc['op'], origin)
        else:
            text, op = G.mutate_text(G.dump(d, rng=rng), rng)
            ctx.count('lang', 'mut:text-' + op)
            org = 'mut:text-%s<%s' % (op, origin)
        verdicts, acc = run_doc(ctx, st, text, org, limit)
        ctx.count('lang', 'mutant-accepted' if acc else 'mutant-rejected')
        done += 1
        if done in (5, 50):
            ctx.sample({'stream': 'lang', 'origin': org, 'text': text[:300], 'verdicts': verdicts})
    ctx.count('lang', 'mutants', done)
    stage('mutants')
    # ---- 5. the seam check: memo off on a sample
    seam(ctx, st, pool, rng)
    stage('seam')
    # ---- 6. model correspondence
    from harness import lang_model as M
    M.correspond_model(ctx, st, pool)
    stage('model-streams')
    # ---- 6b. schema level: Lean interpreter over the generated schemas vs the real validate_schema
    S.run(ctx, st)
    stage('schema-streams')
    # ---- 7. /validate controllers
    api_validate(ctx, st, pool, rng, limit)
    stage('api')
    import resource
    ru_s, ru_c = resource.getrusage(resource.RUSAGE_SELF), resource.getrusage(resource.RUSAGE_CHILDREN)
    ctx.cov['cpu_s'] = {'self': round(ru_s.ru_utime + ru_s.ru_stime, 1), 'children': round(ru_c.ru_utime + ru_c.ru_stime, 1),
                        'wall_since_start_of_check': round(time.time() - ctx.t0, 1)}
    # margin of the watchdog: slowest call that did finish, as a fraction of its time limit
    ctx.cov['slowest_finished_call_fraction_of_cpu_limit'] = round(st.get('max_fraction_of_limit', 0.0), 4)
    ctx.cov['cpu_limit_s'] = round(st['cpu_limit'], 2)
    ctx.cov['cpu_reference'] = {'definition': st['cpu_ref_name'], 'cpu_s': round(st['cpu_ref'], 4)}
    ctx.cov['wall_guard_s'] = round(st['wall_guard'], 1)


def _probe_cpu(st, text, repeat):
    """CPU seconds (best of `repeat`) of the workflow-list parser on `text`; None when the CPU limit was hit."""
    sp = st['sp']
    best = None
    for _ in range(repeat):
        kind, det, _v = E.guarded(lambda: sp.get_workflow_list_spec_from_yaml(text, validate=True), LIMIT_Q)
        if kind == 'hang':
            return None, det
        t = st['last_cpu']
        best = t if best is None else min(best, t)
    return best, None


PROBE_START = 2048
PROBE_MAX = 262144          # characters; a definition may have up to 1 MB
PROBE_T_MIN = 0.15          # CPU seconds at which the measurements are well above timer resolution
PROBE_RATIO = 3.4           # per doubling: linear = 2, n log n ~ 2.1, quadratic = 4 (3.85-4.15 measured)
PROBE_FIXED = {'many-tasks': 65536}   # thorough only: a size where the quadratic graph checks dominate; one doubling


def scaling_probe(ctx, st, name, make, start=None):
    """Load-independent hang detection by *growth*: validation CPU time at sizes n, 2n, 4n (n = first size that
    costs >= 0.15 s CPU).  Super-linear when both doublings multiply the CPU time by more than 3."""
    n = start or PROBE_START
    t1 = None
    while n <= PROBE_MAX:
        t, det = _probe_cpu(st, make(n), 1 if start else 2)
        if t is None:
            return {'family': name, 'verdict': 'cpu-limit', 'n': n, 'detail': det}
        if t >= PROBE_T_MIN:
            t1 = t
            break
        n *= 2
    if t1 is None:
        return {'family': name, 'verdict': 'fast', 'n': n // 2, 't': round(t, 4)}
    if start:
        # expensive family measured at one fixed doubling (n -> 2n), judged on that ratio alone
        sp = st['sp']
        text2 = make(2 * n)
        (site, line), t2 = E.hot_site(lambda: sp.get_workflow_list_spec_from_yaml(text2, validate=True), max(0.01, t1 / 10))
        r1 = t2 / t1
        return {'family': name, 'verdict': 'superlinear' if r1 > PROBE_RATIO else 'linear', 'n': n,
                't': [round(t1, 3), round(t2, 3)], 'ratios': [round(r1, 2)], 'site': site, 'line': line}
    t2, det = _probe_cpu(st, make(2 * n), 1)
    if t2 is None:
        return {'family': name, 'verdict': 'cpu-limit', 'n': 2 * n, 'detail': det}
    r1 = t2 / t1
    if r1 <= PROBE_RATIO:
        return {'family': name, 'verdict': 'linear', 'n': n, 't': [round(t1, 3), round(t2, 3)], 'ratios': [round(r1, 2)]}
    sp = st['sp']
    text4 = make(4 * n)
    (site, line), t4 = E.hot_site(lambda: sp.get_workflow_list_spec_from_yaml(text4, validate=True), max(0.005, t2 / 10))
    r2 = t4 / t2
    return {'family': name, 'verdict': 'superlinear' if r2 > PROBE_RATIO else 'linear', 'n': n,
            't': [round(t1, 3), round(t2, 3), round(t4, 3)], 'ratios': [round(r1, 2), round(r2, 2)],
            'site': site, 'line': line}


def run_probes(ctx, st, only=None):
    for name, make in G.PROBE_FAMILIES:
        if only and name != only:
            continue
        if name in PROBE_FIXED and not (ctx.thorough() or only):
            continue          # ~45 s of CPU: thorough tier / replay only
        res = scaling_probe(ctx, st, name, make, PROBE_FIXED.get(name))
        ctx.evaluated('scaling', name, nontrivial=res['verdict'] in ('linear', 'superlinear'))
        ctx.count('scaling', '%s:%s' % (name, res['verdict']))
        ctx.cov.setdefault('scaling_probes', []).append({k: v for k, v in res.items() if k != 'detail'})
        if res['verdict'] == 'superlinear':
            ctx.violation('validation time grows super-linearly with the size of the definition (family %s: CPU %s s at '
                          '%s characters, ratios %s per doubling; a definition may have 1 MB), hot spot %s [%s]' % (
                              name, res['t'], [res['n'] << i for i in range(len(res['t']))], res['ratios'], res['site'], res['line']),
                          {'kind': 'probe', 'family': name, 'result': res},
                          {'kind': 'superlinear-time', 'family': name})
        elif res['verdict'] == 'cpu-limit':
            det = res['detail']
            ctx.violation('validation of a %d-character definition (family %s) does not finish within %s s of CPU time' % (
                res['n'], name, det['limit_s']), {'kind': 'probe', 'family': name, 'result': {'n': res['n']}},
                {'kind': 'hang', 'site': det['site'], 'line': det['line']})


def seam(ctx, st, pool, rng):
    sp = st['sp']
    docs = [t for _, t in G.TEXT_DOCS[:6]]
    for _ in range(ctx.n(4, 40)):
        if pool:
            m, _d = G.mutate_struct(rng.choice(pool)[1], rng)
            try:
                docs.append(G.dump(m, rng=rng))
            except Exception:
                pass
    for text in docs:
        res = []
        for memo in (True, False):
            (E.memo_on if memo else E.memo_off)()
            try:
                out = []
                for entry, fname in PARSERS:
                    kind, det, _ = E.guarded(lambda: getattr(sp, fname)(text, validate=True), 4)
                    out.append((kind, (det or {}).get('cls') or (det or {}).get('exc')))
                res.append(out)
            finally:
                E.memo_on()
        ctx.evaluated('seam', text_hash(text), nontrivial=True)
        if res[0] != res[1]:
            ctx.disagree('seam', {'text': text}, res[0], res[1])


def api_validate(ctx, st, pool, rng, limit):
    """POST /v2/{workflows,workbooks,actions}/validate: must answer 200 {'valid': bool} (or a 4xx)."""
    app, stop = make_app(st)
    try:
        _api_validate(ctx, st, pool, rng, limit, app)
    finally:
        stop()


def make_app(st):
    """pecan test app the way mistral/tests/unit/api/base.py builds it (no auth, no cron thread)."""
    try:
        import pecan.testing
        from unittest import mock
        from mistral.api import app as pecan_app
        from mistral.services import periodic
        CONF = st['cfg'].CONF
        CONF.set_override('auth_enable', False, group='pecan')
        CONF.set_override('enabled', False, group='cron_trigger')
        app = pecan.testing.load_test_app(dict(pecan_app.get_pecan_config()))
        patch = mock.patch('mistral.context.MistralContext.from_environ')
        m = patch.start()
        m.return_value = st['actx']
    except Exception as e:
        raise_infra('cannot build the pecan test app: %s: %s' % (type(e).__name__, e))

    def stop():
        patch.stop()
        try:
            periodic.stop_all_periodic_tasks()
        except Exception:
            pass
        st['auth_context'].set_ctx(st['actx'])
    return app, stop


def _api_validate(ctx, st, pool, rng, limit, app):
    docs = [(n, t) for n, t in G.TEXT_DOCS]
    for _ in range(ctx.n(60, 600)):
        if pool:
            origin, d = rng.choice(pool)
            m, desc = G.mutate_struct(d, rng)
            try:
                docs.append(('mut:' + desc['op'], G.dump(m, rng=rng)))
            except Exception:
                pass
    import signal
    for name, text in docs:
        try:
            body = text.encode('utf-8')
        except UnicodeEncodeError:
            continue
        for url in ('/v2/workflows/validate', '/v2/workbooks/validate', '/v2/actions/validate'):
            def call():
                return app.post(url, params=body, headers={'Content-Type': 'text/plain'}, expect_errors=True)
            kind, det, resp = E.guarded(call, limit)
            ctx.evaluated('api', [url, text_hash(text)], nontrivial=True)
            if kind == 'hang':
                ctx.violation('%s does not finish within %s s of CPU time' % (url, det['limit_s']), {'kind': 'api', 'url': url, 'text': text},
                              sig_of(url, kind, det))
                continue
            if kind != 'ok':
                # exception escaped the WSGI app
                ctx.count('api', 'escaped:' + (det.get('exc') or det.get('cls') or '?'))
                d2 = det if 'exc' in det else {'exc': det.get('cls'), 'site': 'wsgi', 'line': ''}
                ctx.violation('%s lets %s escape: %s' % (url, d2['exc'], det.get('msg')),
                              {'kind': 'api', 'url': url, 'text': text},
                              {'kind': 'internal-error', 'exc': d2['exc'], 'site': d2['site'], 'line': d2['line']})
                continue
            ctx.count('api', 'status:%d' % resp.status_int)
            if resp.status_int >= 500:
                # find the site by calling the parser directly
                fname = {'/v2/workflows/validate': 'get_workflow_list_spec_from_yaml',
                         '/v2/workbooks/validate': 'get_workbook_spec_from_yaml',
                         '/v2/actions/validate': 'get_action_list_spec_from_yaml'}[url]
                k2, d2, _ = E.guarded(lambda: getattr(st['sp'], fname)(text, validate=True), limit)
                if k2 == 'undeclared':
                    sig = sig_of(url, k2, d2)
                else:
                    sig = {'kind': 'api-5xx', 'url': url, 'status': resp.status_int}
                ctx.violation('%s answers %d on a definition text (%s)' % (url, resp.status_int, (d2 or {}).get('msg', resp.text[:100])),
                              {'kind': 'api', 'url': url, 'text': text}, sig)
            elif resp.status_int == 200:
                try:
                    v = resp.json
                    ok = isinstance(v, dict) and isinstance(v.get('valid'), bool)
                except Exception:
                    ok = False
                if not ok:
                    ctx.violation('%s 200 without a {"valid": bool} body' % url, {'kind': 'api', 'url': url, 'text': text},
                                  {'kind': 'api-bad-body', 'url': url})


def raise_infra(msg):
    from vlib import core
    raise core.Infra(msg)


# ---------------------------------------------------------------------------- search / replay
@infra_guard
def search(ctx):
    """A proof obligation or a model correspondence broke: look for a concrete failing input on the real code by
    widening the monitored population (more generated definitions and mutants, the defect-I witness family)."""
    st = env()
    from harness import lang_model as M
    run_targeted(ctx, st, LIMIT_Q)
    if ctx.violations:
        return
    M.search_model(ctx, st)
    if ctx.violations:
        return
    from harness import schema_stream as S
    S.install(st)
    S.search(ctx, st)
    if ctx.violations:
        return
    old = ctx.tier
    ctx.tier = 'thorough'
    try:
        rng = ctx.rng
        t0 = time.time()
        pool = []
        for i in range(400):
            g = G.gen_wf_list(rng) if i % 2 else G.gen_workbook(rng, clash=i % 4 == 0)
            text = G.dump(g['dict'], style='block')
            _, acc = run_doc(ctx, st, text, 'search:gen', LIMIT_Q)
            if acc:
                pool.append(g['dict'])
            if ctx.violations or time.time() - t0 > 120:
                return
        while time.time() - t0 < 240 and pool and not ctx.violations:
            m, desc = G.mutate_struct(rng.choice(pool), rng)
            try:
                run_doc(ctx, st, G.dump(m, rng=rng), 'search:mut:' + desc['op'], LIMIT_Q)
            except Exception:
                pass
    finally:
        ctx.tier = old


@infra_guard
def replay(ctx, rep):
    r = rep['replay']
    if r.get('stream') == 'defupdate':
        from harness import defupdate_stream
        defupdate_stream.replay(ctx, rep)
        return
    st = env()
    if r.get('kind') == 'doc':
        verdicts, acc = run_doc(ctx, st, r['text'], r.get('origin', 'replay'), LIMIT_Q)
        print('replay: verdicts %s accepted by %s' % (verdicts, [e for e, _ in acc]))
    elif r.get('kind') == 'api':
        api_replay(ctx, st, r)
    elif r.get('kind') == 'probe':
        run_probes(ctx, st, only=r['family'])
        print('replay: scaling probe %s' % ctx.cov.get('scaling_probes'))
    elif r.get('kind') in ('schema', 'schema-ctor'):
        from harness import schema_stream as S
        S.replay(ctx, st, r)
    else:
        from harness import lang_model as M
        M.replay_model(ctx, st, r)
    print('replay: %d new violation(s), %d known finding(s) reproduced' % (len(ctx.violations), len(ctx.known_hit)))


def api_replay(ctx, st, r):
    app, stop = make_app(st)
    try:
        resp = app.post(r['url'], params=r['text'].encode('utf-8'), headers={'Content-Type': 'text/plain'},
                        expect_errors=True)
        print('replay: POST %s -> %d %s' % (r['url'], resp.status_int, resp.text[:200]))
        if resp.status_int >= 500:
            ctx.violation(rep_what(r), r, {'kind': 'api-5xx', 'url': r['url'], 'status': resp.status_int})
    finally:
        stop()


def rep_what(r):
    return 'POST %s answers 5xx on a definition text' % r['url']
