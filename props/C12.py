"""C12 — Rerun or skip of a failed task resumes the run correctly."""
GEN = ['states']
LEAN_MODULES = ['Mistral.Props.C12']
MANIFEST = {
    'technique': 'Lean 4 theorems over an executable model of the rerun/skip command '
                 '(Mistral.Rerun: _recursive_rerun chain, runtime-context cleanup, _reset_actions, with-items '
                 'index selection, skip routing, REST guard) over the regenerated workflow transition table; '
                 'differential check of that model against the real engine and the real REST controller on '
                 'generated failed runs; monitors that read the statement on the real engine, including a '
                 'reference run in which the rerun task produces its new result the first time',
    'text': 'For every failed task of generated runs (plain, with-items, retry policy, join, inside '
            'sub-workflows up to depth 2) the command rerun (reset on/off) or skip is applied through the real '
            'engine, with every outcome of the new attempt, random later schedules and repeated reruns. Proved '
            'on the model (unbounded nesting depth, any rows): the REST guard admits only ERROR tasks and only '
            'RUNNING/SKIPPED targets and never conflicts with the engine; the command sets the workflow, every '
            'enclosing workflow and every parent task RUNNING (induction over the ancestor relation) and the '
            'start_task message sets the task RUNNING with processed=False; the runtime context is cleared; '
            'reset re-executes all items; skip marks SKIPPED, publishes publish-on-skip and follows on-skip, '
            'else on-success, never on-complete, and a join execution the skip re-opens (Task.defer) goes back to '
            'WAITING with processed=False (repo fix acd6a089); a succeeded task is refused by the command itself with nothing '
            'changed; with reset off exactly the failed items are re-executed and no item that is accepted or in '
            'progress is ever scheduled again (both true since repo fixes 494951d1 / e3353c67, regressions in '
            'corpus/C12). Three clauses are FALSE of the code at full strength and are kept as _full_fails + '
            '_partial with engine replays: publish-on-error variables survive a successful rerun; routes taken '
            'by the failed attempt stay taken (on-complete fires twice) - both known findings; the engine by '
            'itself (without the REST guard) reruns non-ERROR tasks that are not SUCCESS (CANCELLED: by design).',
    'note': 'The retry-budget monitor (a rerun task with a retry policy gets its full budget again) reads on a join only '
            'while the preconditions of the join hold: a join failed BY ITS INBOUND TASKS that is rerun directly is run by '
            'the engine without its preconditions and fails again at the first precondition re-check of its retry '
            '(RetryPolicy retries a join through WAITING + _refresh_task_state) - no run exists in which it "produced its '
            'new result the first time" (corpus/C12/join_retry_unsatisfied_preconditions.json; formerly a false alarm of '
            'the failing-input search). 20% of the cases are a focus population: a join with a retry policy, failed by its own '
            'action or by its inbound tasks, rerun over 3-5 rounds with failing / mixed / ok attempts. '
            'The global clause "finishes as if the task had produced its new result the first time" is decided '
            'by the reference-run monitor (sampled programs/schedules), not by a theorem: only its task-local '
            'part (published variables, routes) is proved. Expressions are literals or task().result.',
}
RULE = ('stream rerun: generated programs (1-3 nested workflows, 2-4 tasks each + dedicated on-skip/on-complete/'
        'on-error targets; kinds plain / with-items (2-4 items, optional concurrency) / retry / sub-workflow; '
        'join all where >=2 inbound) x first-run failures x a plan of 1-4 rounds (rerun reset on/off or skip of an '
        'ERROR task chosen by class cause/parent/failed-join; new attempt ok / fail / mixed) x schedule policy; 20% focus '
        'cases: a join task with retry failing by its own action or its inbound tasks, 3-5 rounds preferring that task; '
        'non-trivial = at least one rerun/skip command was applied to an ERROR task; distinct = distinct '
        '(yaml, failures, plan, seed)')
TRUSTED = ['translate/states.py (AST read of states.py: workflow transition table used by canRun)',
           'harness/rerun_stream.py: abstraction of the committed rows to the model world (ids -> positions, '
           'runtime_context -> its key set, published values -> rendered JSON), the per-(task,item,attempt) '
           'result oracle and the construction of the reference oracle',
           'monkeypatched seams of harness/engine_driver.py; pecan test application for the REST guard',
           'the global "as if" clause rests on sampling (reference runs), see MANIFEST.note']
ASSUMPTIONS = ['item indexes of a with-items task are < count (the item list does not change between attempts)',
               'transactions are atomic and serialised (one engine process), as in DESIGN 2.3']


def correspond(ctx):
    from vlib import par
    par.run_parallel(ctx, 'harness.rerun_stream', 'run_chunk', [{'n_cases': ctx.n(30, 600)}] * 14)


def search(ctx):
    """failing-input search: a wider population (other chunk seeds, more rounds) under the monitors"""
    from vlib import par
    par.run_parallel(ctx, 'harness.rerun_stream', 'run_search_chunk', [{'n_cases': ctx.n(25, 200)}] * 14)


def replay(ctx, rep):
    from harness import rerun_stream as rs
    r = rep.get('replay') or rep
    case = r['case']
    res = rs.run_case(ctx, case, ctx.driver())
    rs.report(ctx, case, res)
